//go:build race

package sched

import "runtime"

// RaceEnabled reports whether the binary was built with the race detector.
const RaceEnabled = true

func runtime_RaceErrors() int { return runtime.RaceErrors() }

// RaceErrors returns the number of race reports the detector has produced so far.
func RaceErrors() int { return runtime.RaceErrors() }
