// Package sched is the deterministic scheduler of the /verif simulator.
//
// Simulated threads are real goroutines running real mds code. Exactly one is
// runnable at any time; the others are parked in a raw read(2) on a private
// pipe. Every hand-off goes through raw system calls, which carry no
// race-detector annotation: the detector therefore judges the code under test
// only by the synchronisation the code under test performs, while this
// package decides every interleaving from the run's choice stream.
//
// See /verif/DESIGN.md section 3.2.
package sched

import (
	"encoding/binary"
	"fmt"
	"os"
	"runtime"
	"runtime/debug"
	"strings"
	"sync"
	"sync/atomic"
	"syscall"
	"time"
	"unsafe"

	"github.com/creachadair/mds/verifsim/simsync"
	"verifsim/chooser"
)

// Yield kinds used by harness code (simsync's kinds are 1..99).
const (
	KStart  = 100 // thread parked before its first instruction
	KDone   = 101 // thread finished (A = 1 if it panicked)
	KInvoke = 102 // about to invoke operation A (B = argument digest)
	KReturn = 103 // operation A returned (B = result digest)
	KPoint  = 104 // generic preemption point inside harness-supplied code (A = site)
	// KAnnounce is a scheduler-internal step: a writer's Lock call on an RWMutex
	// held by readers becomes pending (the thread stays parked).
	KAnnounce = 105
	// KDetach: the running thread did not reach a yield point in time (see
	// thread.detached).
	KDetach = 106
)

// Event is one entry of the totally ordered run log.
type Event struct {
	Step int   // scheduler step at which the event was stamped
	Tid  int   // thread
	Kind int   // yield kind
	Obj  int   // small object id (mutex, pool) or 0
	A, B int64 // payload
	// Grant is the step at which the thread was resumed from this yield
	// (-1 if it never was).
	Grant int
}

// Config is the per-run scheduling policy (drawn by the caller: swarm).
type Config struct {
	// StayWeight biases the scheduler towards letting the running thread
	// continue: at each step the running thread (if runnable) has weight
	// StayWeight against 1 for each other runnable thread. 0 = uniform.
	StayWeight int
	// PoolPolicy: 0 = scheduler chooses freely, 1 = always fresh,
	// 2 = always the most recently returned object, 3 = always the oldest.
	PoolPolicy int
	// PoolDropPct is the probability (percent) that a Put drops its object.
	PoolDropPct int
	// MaxSteps bounds the run.
	MaxSteps int
}

// Result is what a run produced.
type Result struct {
	Events    []Event
	Steps     int
	Deadlock  bool   // some thread unfinished and none runnable
	DeadInfo  string // who waits for what
	Overrun   bool   // MaxSteps exceeded
	Panics    []ThreadPanic
	Races     int  // race detector reports attributed to this run
	Switches  int  // steps at which a different thread was resumed than ran before
	Contended int  // steps at which some thread was blocked on a held lock
	Detached  int  // times a thread was detached (blocked outside the simulator's primitives, spinning, or slow)
	Stuck     bool // the run ended with detached threads that never came back
	Hash      uint64
}

// ThreadPanic is a panic that escaped a simulated thread's body.
type ThreadPanic struct {
	Tid   int
	Value string
	Stack string
}

// thread is a persistent simulated-thread goroutine. Threads are created once
// and re-used by later runs: creating a goroutine per run would leave it in the
// run queue of a P that is stuck in the scheduler's blocking read, waiting for
// sysmon to retake it (milliseconds per run).
type thread struct {
	id         int
	rfd, wfd   int
	msg        [40]byte
	rep        [9]byte
	pending    Event
	pendingIdx int
	parked     bool
	done       bool
	dying      bool
	gid        uint64 // goroutine id of the thread\'s current goroutine (norace)
	retired    bool   // its goroutine exited (after a panic or kill); respawn before re-use
	// detached: the thread did not reach its next yield point within
	// detachAfter - it is blocked in a primitive the simulator does not own (a
	// channel, say), or spinning (a hand-rolled spin lock), or just slow. The
	// scheduler goes on with the other threads; the detached one runs for real
	// alongside them and rejoins when its next message arrives.
	detached   bool
	spin       int                 // consecutive atomic operations on one object (a spin loop)
	condTicket int                 // > 0: position in a Cond's wait queue (arrival order)
	condObj    int                 // the Cond it waits on
	condWoken  bool                // a Signal/Broadcast has selected it
	job        atomic.Pointer[job] // published by the scheduler (release), loaded by the thread (acquire)
	finished   atomic.Uint64       // run number the thread last finished (release), read by the scheduler (acquire)
	panicVal   any
	stack      string
}

type job struct {
	sim  *Sim
	run  uint64
	body func(tid int)
}

type lockState struct {
	writer  int // tid+1 or 0
	readers int
	// writerPending: tid+1 of a writer that has called Lock on an RWMutex while
	// readers hold it. As with sync.RWMutex, a blocked Lock call excludes new
	// readers from acquiring the lock.
	writerPending int
}

// Sim is one simulated run.
type Sim struct {
	ch          chooser.Chooser
	cfg         Config
	threads     []*thread
	cur         *thread
	running     bool
	sr, sw      int // scheduler pipe
	objIDs      map[uintptr]int
	locks       map[int]*lockState
	poolSize    map[int]int // simulated pool contents, by object id
	events      []Event
	step        int
	multi       bool // some thread is or was detached: callers are identified by goroutine id (norace)
	over        bool // the run has ended: late callers must unwind (norace)
	condSeq     int
	detachCount int
	run         uint64
}

var (
	theSim   *Sim // norace only
	progress uint64
	once     sync.Once
	pipePool [][2]int  // free pipes, scheduler goroutine only
	pool     []*thread // persistent threads, scheduler goroutine only
	runCount uint64
)

//go:norace
func setSim(s *Sim) { theSim = s }

//go:norace
func getSim() *Sim { return theSim }

// hookActive reports whether the calling goroutine is the running simulated
// thread. A goroutine the code under test started on its own is not: it gets the
// real sync behaviour (and is still watched by the race detector), so that it
// cannot corrupt the hand-off protocol; a run in which that happens is no longer
// an exact function of its choice list.
//
//go:norace
func hookActive() bool {
	s := theSim
	if s == nil || !s.running || s.cur == nil {
		return false
	}
	if s.multi {
		if s.byGID(curGID()) == nil {
			foreign++
			return false
		}
		return true
	}
	if simsync.SpawnsGoroutines && curGID() != s.cur.gid {
		foreign++
		return false
	}
	return true
}

var foreign int64

// ForeignCalls reports how many simsync calls came from goroutines the
// simulator does not control.
//
//go:norace
func ForeignCalls() int64 { return foreign }

// curGID returns the calling goroutine's id (from the header of its stack trace).
//
//go:norace
func curGID() uint64 {
	var buf [40]byte
	n := runtime.Stack(buf[:], false)
	// "goroutine 123 [running]:"
	var id uint64
	for i := len("goroutine "); i < n && buf[i] >= '0' && buf[i] <= '9'; i++ {
		id = id*10 + uint64(buf[i]-'0')
	}
	return id
}

//go:norace
func hookYield(kind int, obj uintptr, a, b int64) int64 {
	return theSim.yield(kind, obj, a, b)
}

// PoolHookFunc, if set, is told about every pool decision (for probes). It is
// called on the scheduler goroutine.
var PoolHookFunc func(get bool, n, choice int)

//go:norace
func hookMulti() bool { s := theSim; return s != nil && s.multi }

// OrderFunc is consulted by simsync.MapOrder when non-nil (single-threaded
// checks install it per run).
var OrderFunc func(keys any)

//go:norace
func hookOrder(keys any) {
	if f := OrderFunc; f != nil {
		f(keys)
	}
}

// InstallHooks installs the simsync hooks (once per process) and starts the
// watchdog.
func InstallHooks() {
	once.Do(func() {
		simsync.Install(simsync.Hooks{Active: hookActive, Yield: hookYield, Order: hookOrder, Multi: hookMulti})
		go watchdog()
	})
}

// Progress is bumped by single-threaded checks so the watchdog can tell a
// hang from a long batch.
//
//go:norace
func Progress() { progress++ }

//go:norace
func readProgress() uint64 { return progress }

// WatchdogInfo, if set, is called (from the watchdog goroutine) just before the
// process is aborted; it may dump the recorded choices of the hung run.
var WatchdogInfo func() string

// WatchdogLimit is how long a single step may take.
var WatchdogLimit = 20 * time.Second

func watchdog() {
	last := readProgress()
	lastChange := time.Now()
	for {
		time.Sleep(500 * time.Millisecond)
		p := readProgress()
		if p != last {
			last, lastChange = p, time.Now()
			continue
		}
		if !watchdogArmed() {
			lastChange = time.Now()
			continue
		}
		if time.Since(lastChange) > WatchdogLimit {
			fmt.Fprintf(os.Stderr, "VERIF-WATCHDOG: no progress for %v others_parked=%d\n", WatchdogLimit, parkedOthers())
			if WatchdogInfo != nil {
				fmt.Fprintf(os.Stderr, "VERIF-WATCHDOG-INFO: %s\n", WatchdogInfo())
			}
			buf := make([]byte, 1<<20)
			n := runtime.Stack(buf, true)
			os.Stderr.Write(buf[:n])
			os.Exit(3)
		}
	}
}

// parkedOthers reports how many simulated threads other than the running one
// are parked in the middle of their work. If there are any, a thread that spins
// may be waiting for one of them (a hand-rolled spin lock, say) and only looks
// hung because the scheduler never runs two threads at once: undecidable.
//
//go:norace
func parkedOthers() int {
	s := theSim
	if s == nil || !s.running {
		return 0
	}
	n := 0
	for _, t := range s.threads {
		if t != s.cur && !t.done {
			n++
		}
	}
	return n
}

var armed bool

//go:norace
func watchdogArmed() bool { return armed }

// Arm enables or disables the watchdog (it is armed while runs execute).
//
//go:norace
func Arm(on bool) { armed = on; progress++ }

// ---------------------------------------------------------------- raw I/O

//go:norace
func rawWrite(fd int, p unsafe.Pointer, n int) {
	for {
		r, _, e := syscall.Syscall(syscall.SYS_WRITE, uintptr(fd), uintptr(p), uintptr(n))
		if e == syscall.EINTR {
			continue
		}
		if e != 0 || int(r) != n {
			fatal(fmt.Sprintf("raw write fd=%d: r=%d errno=%d", fd, r, e))
		}
		return
	}
}

//go:norace
func rawRead(fd int, p unsafe.Pointer, n int) {
	got := 0
	for got < n {
		r, _, e := syscall.Syscall(syscall.SYS_READ, uintptr(fd), uintptr(p)+uintptr(got), uintptr(n-got))
		if e == syscall.EINTR {
			continue
		}
		if e != 0 || r == 0 {
			fatal(fmt.Sprintf("raw read fd=%d: r=%d errno=%d", fd, r, e))
		}
		got += int(r)
	}
}

func fatal(msg string) {
	fmt.Fprintf(os.Stderr, "VERIF-HARNESS-FATAL: %s\n", msg)
	os.Exit(2)
}

func getPipe() [2]int {
	if n := len(pipePool); n > 0 {
		p := pipePool[n-1]
		pipePool = pipePool[:n-1]
		return p
	}
	var p [2]int
	if err := syscall.Pipe(p[:]); err != nil {
		fatal("pipe: " + err.Error())
	}
	return p
}

func putPipe(p [2]int) { pipePool = append(pipePool, p) }

// ---------------------------------------------------------------- thread side

type killed struct{}

// yield is called on the running simulated thread.
//
//go:norace
func (s *Sim) yield(kind int, obj uintptr, a, b int64) int64 {
	t := s.cur
	if s.multi {
		t = s.byGID(curGID())
		if t == nil {
			return 0
		}
	}
	if t.dying {
		return 0
	}
	if s.over {
		// A detached thread that wakes up after its run has ended.
		t.dying = true
		panic(killed{})
	}
	binary.LittleEndian.PutUint32(t.msg[0:], uint32(t.id))
	binary.LittleEndian.PutUint32(t.msg[4:], uint32(kind))
	binary.LittleEndian.PutUint64(t.msg[8:], uint64(obj))
	binary.LittleEndian.PutUint64(t.msg[16:], uint64(a))
	binary.LittleEndian.PutUint64(t.msg[24:], uint64(b))
	rawWrite(s.sw, unsafe.Pointer(&t.msg[0]), 32)
	if kind == KDone {
		return 0
	}
	rawRead(t.rfd, unsafe.Pointer(&t.rep[0]), 9)
	if t.rep[0] == 1 {
		t.dying = true
		panic(killed{})
	}
	return int64(binary.LittleEndian.Uint64(t.rep[1:]))
}

// byGID finds the simulated thread running on the given goroutine.
//
//go:norace
func (s *Sim) byGID(g uint64) *thread {
	for _, t := range s.threads {
		if t.gid == g {
			return t
		}
	}
	return nil
}

// Yield is a preemption point for harness code running on a simulated thread
// (store wrappers, callbacks, readers). Outside a run it does nothing.
//
//go:norace
func Yield(kind int, a, b int64) int64 {
	s := theSim
	if s == nil || !s.running {
		return 0
	}
	if s.multi {
		if s.byGID(curGID()) == nil {
			foreign++
			return 0
		}
	} else if simsync.SpawnsGoroutines && (s.cur == nil || curGID() != s.cur.gid) {
		foreign++
		return 0 // a goroutine the simulator does not schedule
	}
	return s.yield(kind, 0, a, b)
}

// loop is the body of a persistent simulated thread.
//
// After a run in which the thread's body panicked or was killed the goroutine
// exits and the scheduler starts a fresh one for the slot: the race detector's
// shadow call stack is not unwound by a recovered panic, so re-using such a
// goroutine would leak shadow frames (and garble later reports).
func (t *thread) loop() {
	setGID(t, curGID())
	for {
		// Wait for the scheduler to assign a run (raw read: no happens-before).
		rawRead(t.rfd, unsafe.Pointer(&t.rep[0]), 9)
		j := t.job.Load() // acquire: everything the scheduler prepared is visible
		if !t.runBody(j) {
			return
		}
	}
}

// runBody reports whether the goroutine may be re-used.
func (t *thread) runBody(j *job) (clean bool) {
	s := j.sim
	defer func() {
		r := recover()
		var p int64
		if _, ok := r.(killed); ok || isDying(t) {
			p = 2
		} else if r != nil {
			t.panicVal = r
			t.stack = string(debug.Stack())
			p = 1
		}
		setDying(t, false)
		clean = p == 0
		if runOver(s) {
			clean = false // woke up after the run ended: just go away
			return
		}
		t.finished.Store(j.run) // release: the scheduler reads this after KDone
		s.yield(KDone, 0, p, 0)
	}()
	s.yield(KStart, 0, 0, 0)
	j.body(t.id)
	return true
}

//go:norace
func setDying(t *thread, v bool) { t.dying = v }

//go:norace
func setGID(t *thread, id uint64) { t.gid = id }

//go:norace
func runOver(s *Sim) bool { return s.over }

//go:norace
func (s *Sim) setMulti() { s.multi = true }

//go:norace
func (s *Sim) setOver() { s.over = true }

//go:norace
func isDying(t *thread) bool { return t.dying }

// ---------------------------------------------------------------- scheduler side

//go:norace
func (s *Sim) setCur(t *thread) { s.cur = t }

//go:norace
func (s *Sim) setRunning(v bool) { s.running = v }

//go:norace
func (s *Sim) resume(t *thread, die bool, reply int64) {
	var buf [9]byte
	if die {
		buf[0] = 1
	}
	binary.LittleEndian.PutUint64(buf[1:], uint64(reply))
	s.cur = t
	rawWrite(t.wfd, unsafe.Pointer(&buf[0]), 9)
}

// pollIn waits up to ms milliseconds for the scheduler pipe to become readable.
//
//go:norace
func (s *Sim) pollIn(ms int) bool {
	type pollfd struct {
		fd      int32
		events  int16
		revents int16
	}
	for {
		pf := pollfd{fd: int32(s.sr), events: 1}
		r, _, e := syscall.Syscall(syscall.SYS_POLL, uintptr(unsafe.Pointer(&pf)), 1, uintptr(ms))
		if e == syscall.EINTR {
			continue
		}
		if e != 0 {
			fatal(fmt.Sprintf("poll: errno=%d", e))
		}
		return r > 0
	}
}

//go:norace
func (s *Sim) recv() (tid, kind int, obj uintptr, a, b int64) {
	var buf [32]byte
	rawRead(s.sr, unsafe.Pointer(&buf[0]), 32)
	progress++
	tid = int(binary.LittleEndian.Uint32(buf[0:]))
	kind = int(binary.LittleEndian.Uint32(buf[4:]))
	obj = uintptr(binary.LittleEndian.Uint64(buf[8:]))
	a = int64(binary.LittleEndian.Uint64(buf[16:]))
	b = int64(binary.LittleEndian.Uint64(buf[24:]))
	return
}

func (s *Sim) objID(p uintptr) int {
	if p == 0 {
		return 0
	}
	id, ok := s.objIDs[p]
	if !ok {
		id = len(s.objIDs) + 1
		s.objIDs[p] = id
	}
	return id
}

func (s *Sim) lock(id int) *lockState {
	l := s.locks[id]
	if l == nil {
		l = &lockState{}
		s.locks[id] = l
	}
	return l
}

// DetachAfter is how long the scheduler waits for the running thread's next
// message before it detaches it and goes on with the others.
var DetachAfter = 3 * time.Second

// accept waits for the message the running thread t sends when it parks.
// Messages from detached threads that have come back are taken in passing. If t
// does not answer within DetachAfter it is detached.
func (s *Sim) accept(t *thread) {
	waited := time.Duration(0)
	for {
		// Look early (after 2 ms) whether the thread is blocked in something:
		// then there is no point in waiting longer. A thread that is running
		// gets the full DetachAfter (less once this process has met a spinner).
		step := 2 * time.Millisecond
		if waited >= step {
			step = spinLimit() - waited
		}
		if !s.pollIn(int(step / time.Millisecond)) {
			waited += step
			if waited < spinLimit() && !goroutineBlocked(t.gid) {
				continue
			}
			if waited >= spinLimit() {
				spinnersSeen++
			}
			t.detached = true
			s.setMulti()
			s.detachCount++
			s.events = append(s.events, Event{Step: s.step, Tid: t.id, Kind: KDetach, Grant: -1})
			return
		}
		tid, kind, obj, a, b := s.recv()
		if tid == t.id {
			s.handle(t, kind, obj, a, b)
			return
		}
		s.handleFrom(tid, kind, obj, a, b)
	}
}

var spinnersSeen int

// spinLimit is how long a running (not blocked) thread may take before it is
// detached as a spinner.
func spinLimit() time.Duration {
	if spinnersSeen > 0 && DetachAfter > 20*time.Millisecond {
		return 20 * time.Millisecond
	}
	return DetachAfter
}

// goroutineBlocked reports whether the goroutine with the given id is waiting
// in a blocking operation (channel, select, mutex, condition variable, ...),
// as opposed to running, runnable or in a system call.
func goroutineBlocked(gid uint64) bool {
	buf := make([]byte, 1<<16)
	n := runtime.Stack(buf, true)
	needle := fmt.Sprintf("goroutine %d [", gid)
	i := strings.Index(string(buf[:n]), needle)
	if i < 0 {
		return false
	}
	rest := string(buf[i+len(needle) : n])
	j := strings.IndexByte(rest, ']')
	if j < 0 {
		return false
	}
	state := rest[:j]
	for _, w := range []string{"chan send", "chan receive", "select", "semacquire", "sync.Mutex.Lock", "sync.RWMutex", "sync.Cond.Wait", "sync.WaitGroup.Wait", "sleep"} {
		if strings.HasPrefix(state, w) {
			return w != "sleep"
		}
	}
	return false
}

// handleFrom takes a message from a thread other than the one just resumed:
// a detached thread has reached a yield point.
func (s *Sim) handleFrom(tid, kind int, obj uintptr, a, b int64) {
	for _, u := range s.threads {
		if u.id == tid {
			if !u.detached {
				fatal(fmt.Sprintf("message from thread %d, which is neither running nor detached", tid))
			}
			u.detached = false
			s.handle(u, kind, obj, a, b)
			return
		}
	}
	fatal(fmt.Sprintf("message from unknown thread %d", tid))
}

// drain takes whatever messages detached threads have sent meanwhile.
func (s *Sim) drain() {
	for s.pollIn(0) {
		tid, kind, obj, a, b := s.recv()
		s.handleFrom(tid, kind, obj, a, b)
	}
}

// handle records the message thread t sent when it parked.
func (s *Sim) handle(t *thread, kind int, obj uintptr, a, b int64) {
	tid := t.id
	ev := Event{Step: s.step, Tid: tid, Kind: kind, Obj: s.objID(obj), A: a, B: b, Grant: -1}
	// A thread that keeps coming back to an atomic operation on the same
	// object without doing anything else in between is spinning on it.
	if kind == simsync.KAtomic && t.pending.Kind == simsync.KAtomic && t.pending.Obj == ev.Obj {
		t.spin++
	} else {
		t.spin = 0
	}
	switch kind {
	case simsync.KUnlock:
		l := s.lock(ev.Obj)
		l.writer = 0
	case simsync.KRUnlock:
		l := s.lock(ev.Obj)
		l.readers--
	case simsync.KTryLock:
		if a == 1 {
			s.lock(ev.Obj).writer = tid + 1
		}
	case simsync.KTryRLock:
		if a == 1 {
			s.lock(ev.Obj).readers++
		}
	case simsync.KCondEnq:
		s.condSeq++
		t.condTicket, t.condObj, t.condWoken = s.condSeq, ev.Obj, false
	case simsync.KCondSignal, simsync.KCondBroadcast:
		// Wake the longest-waiting thread (all of them for Broadcast).
		for {
			var w *thread
			for _, u := range s.threads {
				if u.condTicket > 0 && u.condObj == ev.Obj && !u.condWoken && (w == nil || u.condTicket < w.condTicket) {
					w = u
				}
			}
			if w == nil {
				break
			}
			w.condWoken = true
			if kind == simsync.KCondSignal {
				break
			}
		}
	case KDone:
		t.done = true
		t.retired = a != 0
		if t.finished.Load() != s.run { // acquire: orders the thread's run before what follows
			fatal("thread finished a different run")
		}
	}
	t.pending = ev
	t.parked = kind != KDone
	s.events = append(s.events, ev)
	t.pendingIdx = len(s.events) - 1
}

func (s *Sim) blocked(t *thread) bool {
	switch t.pending.Kind {
	case simsync.KLock:
		l := s.lock(t.pending.Obj)
		if l.writer != 0 {
			return true
		}
		if l.writerPending != 0 && l.writerPending != t.id+1 {
			return true // another writer is ahead
		}
		if l.readers != 0 {
			// Not yet announced: the thread may take the (scheduler-internal)
			// step of calling Lock; once pending it waits for the readers.
			return l.writerPending == t.id+1
		}
		return false
	case simsync.KRLock:
		l := s.lock(t.pending.Obj)
		return l.writer != 0 || l.writerPending != 0
	case simsync.KCondWait:
		return !t.condWoken
	}
	return false
}

// announce handles a writer whose Lock call finds readers: the call becomes
// pending and the thread stays parked. It reports whether it did so.
func (s *Sim) announce(t *thread) bool {
	if t.pending.Kind != simsync.KLock {
		return false
	}
	l := s.lock(t.pending.Obj)
	if l.readers == 0 || l.writer != 0 || l.writerPending != 0 {
		return false
	}
	l.writerPending = t.id + 1
	s.events = append(s.events, Event{Step: s.step, Tid: t.id, Kind: KAnnounce, Obj: t.pending.Obj, Grant: s.step})
	return true
}

// Run executes the bodies as simulated threads under the scheduler until all
// have finished, a deadlock is found or the step bound is exceeded. It must be
// called on the goroutine that owns the Chooser.
func Run(ch chooser.Chooser, cfg Config, bodies []func(tid int)) *Result {
	InstallHooks()
	if cfg.MaxSteps == 0 {
		cfg.MaxSteps = 100000
	}
	sp := getPipe()
	tainted0 := Tainted
	s := &Sim{ch: ch, cfg: cfg, sr: sp[0], sw: sp[1], objIDs: map[uintptr]int{}, locks: map[int]*lockState{}, poolSize: map[int]int{}}
	races0 := runtime_RaceErrors()
	setSim(s)
	s.setRunning(true)
	Arm(true)

	// Assign the bodies to persistent threads one at a time, so that the start
	// messages arrive in order.
	runCount++
	s.run = runCount
	for i, body := range bodies {
		for len(pool) <= i {
			p := getPipe()
			t := &thread{id: len(pool), rfd: p[0], wfd: p[1]}
			pool = append(pool, t)
			go t.loop()
		}
		if pool[i] == nil {
			// the previous owner of this slot was abandoned (blocked or spinning)
			p := getPipe()
			pool[i] = &thread{id: i, rfd: p[0], wfd: p[1]}
			go pool[i].loop()
		}
		t := pool[i]
		if t.retired {
			t.retired = false
			go t.loop()
		}
		t.pending, t.pendingIdx, t.parked, t.done, t.panicVal, t.stack = Event{}, 0, false, false, nil, ""
		t.condTicket, t.condObj, t.condWoken = 0, 0, false
		t.detached, t.spin = false, 0
		s.threads = append(s.threads, t)
		t.job.Store(&job{sim: s, run: s.run, body: body}) // release
		s.resume(t, false, 0)
		s.accept(t)
	}

	res := &Result{}
	var last *thread
	defer func() {
		// A chooser panic (replay diverged / exhausted) must not leave threads
		// parked in the middle of a run.
		if r := recover(); r != nil {
			s.shutdown()
			if Tainted == tainted0 {
				putPipe(sp)
			}
			panic(r)
		}
	}()
	for {
		if s.multi {
			s.drain()
		}
		var runnable []*thread
		unfinished, contended, detached := 0, false, 0
		for _, t := range s.threads {
			if t.done {
				continue
			}
			unfinished++
			if t.detached {
				detached++
				continue
			}
			if s.blocked(t) {
				contended = true
				continue
			}
			runnable = append(runnable, t)
		}
		if unfinished == 0 {
			break
		}
		if contended {
			res.Contended++
		}
		if len(runnable) == 0 && detached > 0 {
			// Only detached threads could still make progress: give them a
			// while to come back on their own.
			if s.pollIn(5000) {
				continue
			}
			res.Deadlock, res.Stuck = true, true
			for _, t := range s.threads {
				if !t.done && t.detached {
					res.DeadInfo += fmt.Sprintf("thread %d does not reach a yield point any more (blocked in a primitive the simulator does not own, or spinning) and no other thread can run; ", t.id)
				} else if !t.done {
					res.DeadInfo += fmt.Sprintf("thread %d waits for kind %d obj %d; ", t.id, t.pending.Kind, t.pending.Obj)
				}
			}
			break
		}
		if len(runnable) == 0 {
			res.Deadlock = true
			for _, t := range s.threads {
				if !t.done {
					res.DeadInfo += fmt.Sprintf("thread %d waits for kind %d obj %d; ", t.id, t.pending.Kind, t.pending.Obj)
				}
			}
			break
		}
		if s.step >= cfg.MaxSteps {
			res.Overrun = true
			break
		}
		t := s.pick(runnable, last)
		if last != nil && t != last {
			res.Switches++
		}
		last = t
		s.step++
		if s.announce(t) {
			continue
		}
		reply := s.grant(t)
		s.resume(t, false, reply)
		s.accept(t)
	}

	s.shutdown()

	for _, t := range s.threads {
		if t.panicVal != nil {
			res.Panics = append(res.Panics, ThreadPanic{Tid: t.id, Value: fmt.Sprint(t.panicVal), Stack: t.stack})
		}
	}
	if Tainted == tainted0 {
		putPipe(sp) // otherwise an abandoned thread might still write to it
	}
	res.Events = s.events
	res.Detached = s.detachCount
	res.Steps = s.step
	res.Races = runtime_RaceErrors() - races0
	res.Hash = hashEvents(s.events)
	return res
}

// shutdown kills whatever is still parked (deadlock / overrun / abort), one
// thread at a time: the thread unwinds without yielding and reports back.
func (s *Sim) shutdown() {
	// Kill the parked threads one at a time (each unwinds without yielding and
	// reports back). A detached thread released by that may come back in the
	// meantime; it is then parked and gets the same treatment.
	for again := true; again; {
		again = false
		if s.multi {
			s.drain()
		}
		for _, t := range s.threads {
			if !t.done && !t.detached {
				s.resume(t, true, 0)
				s.accept(t)
				again = true
			}
		}
	}
	s.setOver()
	for _, t := range s.threads {
		if !t.done && t.detached {
			// Cannot be stopped: abandon the slot (its goroutine unwinds by
			// itself if it ever reaches a yield point again).
			Tainted++
			pool[t.id] = nil
		}
	}
	s.setRunning(false)
	setSim(nil)
	Arm(false)
}

// Tainted counts threads that were abandoned while blocked or spinning. A
// process with such leftovers should finish what it is doing and exit.
var Tainted int

// pick chooses the next thread to resume.
func (s *Sim) pick(runnable []*thread, last *thread) *thread {
	// Fairness towards whoever a spinner is waiting for: a thread in a spin
	// loop is only chosen when nobody else can run.
	if len(runnable) > 1 {
		var others []*thread
		for _, t := range runnable {
			if t.spin < 3 {
				others = append(others, t)
			}
		}
		if len(others) > 0 && len(others) < len(runnable) {
			runnable = others
		}
	}
	if len(runnable) == 1 {
		return runnable[0]
	}
	// Put the previously running thread first so that choice 0 = "no switch".
	li := -1
	for i, t := range runnable {
		if t == last {
			li = i
		}
	}
	if li > 0 {
		l := runnable[li]
		copy(runnable[1:li+1], runnable[:li])
		runnable[0] = l
	}
	if li < 0 || s.cfg.StayWeight <= 1 {
		return runnable[s.ch.Draw(len(runnable), "sched")]
	}
	w := s.cfg.StayWeight
	v := s.ch.Draw(w+len(runnable)-1, "sched")
	if v < w {
		return runnable[0]
	}
	return runnable[1+v-w]
}

// grant performs the bookkeeping for resuming t from its pending yield and
// computes the reply.
func (s *Sim) grant(t *thread) int64 {
	ev := &s.events[t.pendingIdx]
	ev.Grant = s.step
	switch ev.Kind {
	case simsync.KLock:
		l := s.lock(ev.Obj)
		l.writer = t.id + 1
		if l.writerPending == t.id+1 {
			l.writerPending = 0
		}
	case simsync.KRLock:
		s.lock(ev.Obj).readers++
	case simsync.KCondWait:
		t.condTicket, t.condWoken = 0, false
	case simsync.KPoolGet:
		// The pool's contents as of now (the count sent with the yield may be
		// stale: other threads have run since).
		n := s.poolSize[ev.Obj]
		ev.A = int64(n)
		c := 0
		switch s.cfg.PoolPolicy {
		case 1:
			c = 0
		case 2:
			c = n
		case 3:
			if n > 0 {
				c = 1
			}
		default:
			// 0 = most recently returned ... n = fresh: keep "0 = simplest"
			// by mapping draw 0 to a fresh object.
			c = s.ch.Draw(n+1, "poolget")
		}
		if PoolHookFunc != nil {
			PoolHookFunc(true, n, c)
		}
		if c > 0 && c <= n {
			s.poolSize[ev.Obj]--
		}
		ev.B = int64(c)
		return int64(c)
	case simsync.KPoolPut:
		keep := 1
		if s.cfg.PoolDropPct > 0 {
			if s.ch.Draw(100, "poolput") < s.cfg.PoolDropPct {
				keep = 0
			}
		}
		if PoolHookFunc != nil {
			PoolHookFunc(false, s.poolSize[ev.Obj], keep)
		}
		if keep == 1 && s.poolSize[ev.Obj] < 32 {
			s.poolSize[ev.Obj]++
		}
		ev.B = int64(keep)
		return int64(keep)
	}
	return 0
}

func hashEvents(evs []Event) uint64 {
	h := uint64(14695981039346656037)
	mix := func(v uint64) {
		for i := 0; i < 8; i++ {
			h ^= v & 0xff
			h *= 1099511628211
			v >>= 8
		}
	}
	for _, e := range evs {
		mix(uint64(e.Step))
		mix(uint64(e.Tid))
		mix(uint64(e.Kind))
		mix(uint64(e.Obj))
		mix(uint64(e.A))
		mix(uint64(e.B))
		mix(uint64(e.Grant))
	}
	return h
}

// CurrentTid reports the id of the running simulated thread (-1 outside a run).
//
//go:norace
func CurrentTid() int {
	s := theSim
	if s == nil || !s.running || s.cur == nil {
		return -1
	}
	if s.multi {
		if t := s.byGID(curGID()); t != nil {
			return t.id
		}
		return -1
	}
	return s.cur.id
}

// IsKill reports whether a recovered panic value is the scheduler's kill
// signal, which harness code on a simulated thread must re-panic.
func IsKill(r any) bool { _, ok := r.(killed); return ok }
