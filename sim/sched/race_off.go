//go:build !race

package sched

const RaceEnabled = false

func runtime_RaceErrors() int { return 0 }

func RaceErrors() int { return 0 }
