// check is the driver behind /verif/bin/check.
//
//	check <property> [quick|thorough] [--replay FILE]
//	check --setup
//
// It generates the build overlay from the current repository files, builds the
// simulator worker, runs the harness canaries, replays the witnesses of listed
// known findings, fans the seed out over worker processes (one per core, each
// pinned to its core), verifies any reported violation by replaying its
// minimised choice list in a fresh process, and writes the evidence file.
//
// Exit status: 0 = property held on everything explored; 1 = violation (a
// line "VIOLATION property=<id> replay=<path>" is printed); 2 = harness, build
// or environment trouble (never a VIOLATION line).
package main

import (
	"bytes"
	"encoding/binary"
	"encoding/json"
	"fmt"
	"os"
	"os/exec"
	"os/signal"
	"path/filepath"
	"runtime"
	"sort"
	"strconv"
	"strings"
	"sync"
	"syscall"
	"time"
)

var (
	verifDir = "/verif"
	repoDir  = "/repo"
	simDir   string
	buildDir string
)

// sub describes one simulated configuration of a property's check.
type sub struct {
	ID      string // registry id in the worker
	Race    bool   // needs the race-detector build
	QuickN  int    // runs per worker, quick tier
	ThorN   int    // runs per worker, thorough tier
	Workers int    // 0 = all
	// QuickEnv / ThorEnv are extra environment settings for the workers.
	QuickEnv, ThorEnv []string
}

type propSpec struct {
	Subs []sub
}

var specs = map[string]propSpec{
	"C08": {Subs: []sub{{ID: "C08", QuickN: 60000, ThorN: 1500000}}},
	"C09": {Subs: []sub{{ID: "C09", Race: true, QuickN: 20000, ThorN: 400000}}},
	"C15": {Subs: []sub{{ID: "C15", Race: true, QuickN: 20000, ThorN: 500000, QuickEnv: []string{"VERIF_SHELL_ORACLE=2000"}, ThorEnv: []string{"VERIF_SHELL_ORACLE=50000"}}}},
	"C16": {Subs: []sub{
		{ID: "C16/delivery", Race: true, QuickN: 20000, ThorN: 500000, QuickEnv: []string{"VERIF_SHELL_ORACLE=2000"}, ThorEnv: []string{"VERIF_SHELL_ORACLE=50000"}},
		{ID: "C16/faults", Race: true, QuickN: 20000, ThorN: 500000},
	}},
	"C19": {Subs: []sub{
		{ID: "C19/A", QuickN: 250000, ThorN: 4000000},
		{ID: "C19/B", QuickN: 12, ThorN: 30, QuickEnv: []string{"VERIF_C19B_COUNTERS=20000"}, ThorEnv: []string{"VERIF_C19B_COUNTERS=200000"}},
	}},
}

type statsFile struct {
	Property     string           `json:"property"`
	Seed         uint64           `json:"seed"`
	Runs         int64            `json:"runs"`
	Counters     map[string]int64 `json:"counters"`
	Distinct     int              `json:"distinct"`
	DistinctNT   int              `json:"distinct_nontrivial"`
	Samples      []any            `json:"samples"`
	WallS        float64          `json:"wall_s"`
	Violation    bool             `json:"violation"`
	Class        string           `json:"class"`
	KnownDetails []string         `json:"known_details"`
	RapidLog     []string         `json:"rapid_log"`
	Rule         string           `json:"rule"`
	Real         []string         `json:"real"`
	Simulated    []string         `json:"simulated"`
	Required     []string         `json:"required_probes"`
}

type finding struct {
	ID        string            `json:"id"`
	Property  []string          `json:"property"`
	Status    string            `json:"status"` // known | fixed
	Record    string            `json:"record"`
	CallSites []string          `json:"call_sites"`
	WhatFails string            `json:"what_fails"`
	Witness   map[string]string `json:"witness"` // check id -> replay file (relative to /verif)
	Commit    string            `json:"commit,omitempty"`
}

type findingsFile struct {
	Findings []finding `json:"findings"`
}

func env(k, d string) string {
	if v := os.Getenv(k); v != "" {
		return v
	}
	return d
}

func trouble(format string, args ...any) {
	fmt.Fprintf(os.Stderr, "check: "+format+"\n", args...)
	cleanup()
	os.Exit(2)
}

var scratch string

// knownIDs are the findings listed with status "known".
var knownIDs []string

// shrinkTime bounds rapid's minimisation per failing worker.
var shrinkTime = "8s"

func cleanup() {
	if scratch != "" && os.Getenv("VERIF_KEEP") == "" {
		os.RemoveAll(scratch)
	}
}

func goEnv() []string {
	e := os.Environ()
	e = append(e, "GOFLAGS=-mod=mod", "GOPROXY=off", "GOSUMDB=off", "GOTOOLCHAIN=local", "CGO_ENABLED=1")
	return e
}

// children are the processes started by run that have not finished; they are
// killed if the driver is told to stop or a batch overruns its time limit.
var (
	childMu  sync.Mutex
	children = map[*exec.Cmd]bool{}
)

func killChildren() {
	childMu.Lock()
	defer childMu.Unlock()
	for c := range children {
		if c.Process != nil {
			syscall.Kill(-c.Process.Pid, syscall.SIGKILL)
		}
	}
}

func run(dir string, env []string, name string, args ...string) (string, error) {
	cmd := exec.Command(name, args...)
	cmd.Dir = dir
	cmd.Env = env
	// Own process group (so that taskset + worker die together) and a death
	// signal, so that no worker outlives the driver.
	cmd.SysProcAttr = &syscall.SysProcAttr{Setpgid: true, Pdeathsig: syscall.SIGKILL}
	var b bytes.Buffer
	cmd.Stdout = &b
	cmd.Stderr = &b
	if err := cmd.Start(); err != nil {
		return "", err
	}
	childMu.Lock()
	children[cmd] = true
	childMu.Unlock()
	err := cmd.Wait()
	childMu.Lock()
	delete(children, cmd)
	childMu.Unlock()
	return b.String(), err
}

func main() {
	verifDir = env("VERIF_DIR", verifDir)
	repoDir = env("VERIF_REPO", repoDir)
	simDir = filepath.Join(verifDir, "sim")
	buildDir = filepath.Join(verifDir, ".build")
	args := os.Args[1:]
	if len(args) == 0 {
		fmt.Fprintln(os.Stderr, "usage: check <property> [quick|thorough] [--replay FILE] | --setup")
		os.Exit(2)
	}
	sigs := make(chan os.Signal, 1)
	signal.Notify(sigs, syscall.SIGINT, syscall.SIGTERM, syscall.SIGHUP)
	go func() {
		<-sigs
		killChildren()
		cleanup()
		os.Exit(2)
	}()
	var err error
	scratch, err = os.MkdirTemp("", "verif-check-")
	if err != nil {
		trouble("mktemp: %v", err)
	}
	defer cleanup()

	if args[0] == "--setup" {
		// Build both worker variants once so that the Go build cache is warm.
		prepare(true, true)
		fmt.Println("setup ok")
		return
	}
	id := args[0]
	tier := env("VERIF_TIER", "quick")
	replay := ""
	for i := 1; i < len(args); i++ {
		switch args[i] {
		case "quick", "thorough":
			tier = args[i]
		case "--replay":
			if i+1 >= len(args) {
				trouble("--replay needs a file")
			}
			replay = args[i+1]
			i++
		default:
			trouble("unknown argument %q", args[i])
		}
	}
	spec, ok := specs[id]
	if !ok {
		trouble("no check for property %q", id)
	}
	seed, err := strconv.ParseUint(env("VERIF_SEED", "1"), 0, 64)
	if err != nil {
		trouble("VERIF_SEED: %v", err)
	}
	needRace, needPlain := false, false
	for _, s := range spec.Subs {
		if s.Race {
			needRace = true
		} else {
			needPlain = true
		}
	}
	loadFindings()
	if replay != "" {
		os.Exit(doReplay(id, spec, replay))
	}
	prepare(needRace, needPlain)
	code := runCheck(id, spec, tier, seed)
	cleanup()
	os.Exit(code)
}

// ---------------------------------------------------------------- build

var overlayReport map[string]any

func workerPath(race bool) string {
	if race {
		return filepath.Join(scratch, "simworker-race")
	}
	return filepath.Join(scratch, "simworker")
}

// prepare generates the overlay from the current repository and builds the
// worker(s) against it.
func prepare(race, plain bool) {
	genv := goEnv()
	// A private go.mod so that VERIF_REPO can point the build at a scratch copy.
	mod, err := os.ReadFile(filepath.Join(simDir, "go.mod"))
	if err != nil {
		trouble("%v", err)
	}
	mod = bytes.Replace(mod, []byte("=> /repo"), []byte("=> "+repoDir), 1)
	modfile := filepath.Join(scratch, "go.mod")
	os.WriteFile(modfile, mod, 0o644)
	sum, _ := os.ReadFile(filepath.Join(simDir, "go.sum"))
	os.WriteFile(filepath.Join(scratch, "go.sum"), sum, 0o644)

	ovgen := filepath.Join(scratch, "verif-overlay")
	if out, err := run(simDir, genv, "go", "build", "-modfile", modfile, "-o", ovgen, "./cmd/verif-overlay"); err != nil {
		trouble("building the overlay generator failed:\n%s", out)
	}
	ovdir := filepath.Join(scratch, "ov")
	if out, err := run(simDir, genv, ovgen, "-repo", repoDir, "-src", filepath.Join(simDir, "overlaysrc"), "-out", ovdir); err != nil {
		trouble("overlay generation failed (the simulator cannot put its seams into the current sources):\n%s", out)
	}
	if b, err := os.ReadFile(filepath.Join(ovdir, "report.json")); err == nil {
		json.Unmarshal(b, &overlayReport)
	}
	var wg sync.WaitGroup
	var mu sync.Mutex
	var fails []string
	build := func(r bool) {
		defer wg.Done()
		args := []string{"build", "-modfile", modfile, "-overlay", filepath.Join(ovdir, "overlay.json"), "-o", workerPath(r)}
		if r {
			args = append(args, "-race")
		}
		args = append(args, "./cmd/simworker")
		if out, err := run(simDir, genv, "go", args...); err != nil {
			mu.Lock()
			fails = append(fails, out)
			mu.Unlock()
		}
	}
	if race {
		wg.Add(1)
		go build(true)
	}
	if plain {
		wg.Add(1)
		go build(false)
	}
	wg.Wait()
	if len(fails) > 0 {
		trouble("building the simulator against the current repository failed (exit 2, not a violation):\n%s", strings.Join(fails, "\n"))
	}
	if race {
		out, err := runWorker(true, 0, filepath.Join(scratch, "selftest"), "-selftest")
		if err != nil || !strings.Contains(out, "SELFTEST-OK") {
			trouble("harness canaries failed: %v\n%s", err, out)
		}
	}
}

// runWorker runs the worker binary pinned to a core with the race detector
// configured to report every occurrence.
func runWorker(race bool, cpu int, outDir string, args ...string) (string, error) {
	return runWorkerEnv(race, cpu, outDir, nil, args...)
}

func runWorkerEnv(race bool, cpu int, outDir string, extra []string, args ...string) (string, error) {
	os.MkdirAll(outDir, 0o755)
	racelog := filepath.Join(outDir, "race")
	e := append(os.Environ(),
		"GOMAXPROCS="+env("VERIF_GOMAXPROCS", "1"),
		"GORACE=suppress_equal_stacks=0 suppress_equal_addresses=0 halt_on_error=0 exitcode=0 log_path="+racelog,
		"VERIF_RACELOG="+racelog,
		"VERIF_SHRINKTIME="+env("VERIF_SHRINKTIME", shrinkTime),
		"VERIF_KNOWN="+strings.Join(knownIDs, ","))
	e = append(e, extra...)
	for _, x := range extra {
		if x == "VERIF_PARALLEL=1" {
			// A worker that is not pinned and has four Ps: the schedule is the
			// same (one simulated thread at a time), but threads the scheduler
			// had to detach (blocked or spinning in primitives it does not own)
			// then run truly in parallel with the scheduled one.
			e = append(e, "GOMAXPROCS=4")
			return run(outDir, e, workerPath(race), args...)
		}
	}
	full := append([]string{"-c", strconv.Itoa(cpu % runtime.NumCPU()), workerPath(race)}, args...)
	return run(outDir, e, "taskset", full...)
}

// ---------------------------------------------------------------- replay

// batchReplay re-executes the batch that produced a failure up to the run in
// which it first failed, in a fresh process with the same worker seed, and
// reports whether it fails there again with the same class.
func batchReplay(spec propSpec, path string, verbose bool) bool {
	ff, err := readFail(path)
	if err != nil || ff.BatchRun < 1 {
		return false
	}
	s, ok := subFor(spec, ff.Sub)
	if !ok {
		return false
	}
	dir := filepath.Join(scratch, "batch-replay")
	os.RemoveAll(dir)
	xenv := []string{"VERIF_SHRINKTIME=1ms"}
	if ff.TimingDependent {
		xenv = append(xenv, "VERIF_PARALLEL=1")
	}
	out, _ := runWorkerEnv(s.Race, 0, dir, xenv, "-prop", s.ID, "-runs", strconv.Itoa(ff.BatchRun), "-seed", strconv.FormatUint(ff.BatchSeed, 10), "-out", dir)
	got, err := readFail(filepath.Join(dir, "fail-unshrunk.json"))
	if verbose {
		fmt.Printf("batch-prefix replay: worker seed %d, %d runs: %s\n", ff.BatchSeed, ff.BatchRun, firstLine(out))
	}
	return err == nil && got.Class == ff.Class
}

func markBatchPrefix(path string) {
	b, err := os.ReadFile(path)
	if err != nil {
		return
	}
	var m map[string]any
	if json.Unmarshal(b, &m) != nil {
		return
	}
	m["replay_mode"] = "batch-prefix"
	if out, err := json.MarshalIndent(m, "", " "); err == nil {
		os.WriteFile(path, out, 0o644)
	}
}

func subFor(spec propSpec, id string) (sub, bool) {
	for _, s := range spec.Subs {
		if s.ID == id {
			return s, true
		}
	}
	return sub{}, false
}

type failFile struct {
	BatchSeed       uint64 `json:"batch_seed"`
	BatchRun        int    `json:"batch_first_failing_run"`
	ReplayMode      string `json:"replay_mode"`
	TimingDependent bool   `json:"timing_dependent"`
	Property        string `json:"property"`
	Sub             string `json:"check"`
	Class           string `json:"class"`
	Detail          string `json:"detail"`
	Hash            string `json:"event_log_fingerprint"`
}

func readFail(path string) (failFile, error) {
	var ff failFile
	b, err := os.ReadFile(path)
	if err != nil {
		return ff, err
	}
	err = json.Unmarshal(b, &ff)
	return ff, err
}

// replayOnce replays a file in a fresh worker process. It returns the worker's
// exit status (0 pass/known, 1 same violation, 3 watchdog, 4 diverged) and output.
func replayOnce(spec propSpec, path string, wd string) (int, string) {
	ff, err := readFail(path)
	if err != nil {
		return 2, err.Error()
	}
	s, ok := subFor(spec, ff.Sub)
	if !ok {
		return 2, fmt.Sprintf("replay file names check %q, which this property does not have", ff.Sub)
	}
	abs, _ := filepath.Abs(path)
	var xenv []string
	if ff.TimingDependent {
		xenv = []string{"VERIF_PARALLEL=1"} // as the worker that found it: real parallelism for detached threads
	}
	out, err := runWorkerEnv(s.Race, 0, filepath.Join(scratch, "replay"), xenv, "-prop", s.ID, "-replay", abs, "-watchdog", wd)
	code := 0
	if ee, ok := err.(*exec.ExitError); ok {
		code = ee.ExitCode()
	} else if err != nil {
		return 2, err.Error()
	}
	return code, out
}

func doReplay(id string, spec propSpec, path string) int {
	ff, err := readFail(path)
	if err != nil {
		trouble("replay file: %v", err)
	}
	s, ok := subFor(spec, ff.Sub)
	if !ok {
		trouble("replay file is for check %q", ff.Sub)
	}
	prepare(s.Race, !s.Race)
	if ff.ReplayMode == "batch-prefix" {
		if batchReplay(spec, path, true) {
			fmt.Printf("violation class=%s (batch-prefix replay): %s\n", ff.Class, firstLine(ff.Detail))
			fmt.Printf("VIOLATION property=%s replay=%s\n", id, path)
			return 1
		}
		fmt.Println("batch-prefix replay: the batch passes")
		return 0
	}
	code, out := replayOnce(spec, path, "20s")
	fmt.Print(out)
	switch code {
	case 1:
		fmt.Printf("VIOLATION property=%s replay=%s\n", id, path)
		return 1
	case 3:
		if hangInCodeUnderTest(out) {
			fmt.Printf("violation class=hang: a call into the code under test does not return\n")
			fmt.Printf("VIOLATION property=%s replay=%s\n", id, path)
			return 1
		}
		return 2
	case 0:
		return 0
	}
	if crashInCodeUnderTest(code, out) {
		fmt.Printf("violation class=crash: the process dies of a fatal error inside the code under test\n")
		fmt.Printf("VIOLATION property=%s replay=%s\n", id, path)
		return 1
	}
	return 2
}

// ---------------------------------------------------------------- batch

type workerResult struct {
	env   []string
	sub   sub
	idx   int
	dir   string
	code  int
	out   string
	stats *statsFile
}

func runCheck(id string, spec propSpec, tier string, seed uint64) int {
	start := time.Now()
	if tier == "thorough" {
		shrinkTime = "30s"
	}
	nw := runtime.NumCPU()
	if v := os.Getenv("VERIF_WORKERS"); v != "" {
		nw, _ = strconv.Atoi(v)
	}
	if nw < 1 {
		nw = 1
	}
	scale := 1.0
	if v := os.Getenv("VERIF_SCALE"); v != "" {
		scale, _ = strconv.ParseFloat(v, 64)
	}

	// Known findings: replay the witnesses first.
	ffs := loadFindings()
	knownLines := map[string]string{}
	knownActive := map[string]bool{}
	for _, f := range ffs.Findings {
		if os.Getenv("VERIF_SKIP_WITNESS") != "" {
			break // experiments only: measure what the batch alone finds
		}
		if f.Status == "fixed" {
			// A fixed entry suppresses nothing; its witness is replayed as a
			// regression test and must pass on the repaired tree.
			for _, p := range f.Property {
				if p != id {
					continue
				}
				for subID, w := range f.Witness {
					if _, ok := subFor(spec, subID); !ok {
						continue
					}
					code, out := replayOnce(spec, filepath.Join(verifDir, w), "20s")
					if code == 3 && hangInCodeUnderTest(out) {
						fmt.Printf("violation class=hang: replaying the witness of fixed finding %s, a call into the code under test does not return\n%s\n", f.ID, tail(out, 30))
						dst := saveReplay(id, seed, "witness-"+f.ID+"-hang", filepath.Join(verifDir, w))
						fmt.Printf("VIOLATION property=%s replay=%s\n", id, dst)
						return 1
					}
					switch code {
					case 0:
					case 1:
						fmt.Printf("the witness of fixed finding %s fails again:\n%s", f.ID, out)
						dst := saveReplay(id, seed, "witness-"+f.ID, filepath.Join(verifDir, w))
						fmt.Printf("VIOLATION property=%s replay=%s\n", id, dst)
						return 1
					default:
						// The witness is a recorded choice list; on a changed tree the
						// run may ask different questions or fail differently. That says
						// nothing either way: go on with the batch, which judges the
						// tree on its own.
						fmt.Printf("note: the witness of fixed finding %s does not replay on this tree (exit %d); continuing with the batch\n", f.ID, code)
					}
				}
			}
			continue
		}
		if f.Status != "known" {
			continue
		}
		for _, p := range f.Property {
			if p != id {
				continue
			}
			for subID, w := range f.Witness {
				if _, ok := subFor(spec, subID); !ok {
					continue
				}
				code, out := replayOnce(spec, filepath.Join(verifDir, w), "20s")
				switch {
				case code == 0 && strings.Contains(out, "REPLAY-KNOWN "+f.ID):
					knownActive[f.ID] = true
					knownLines[f.ID] = fmt.Sprintf("KNOWN-FINDING: property=%s %s: %s", id, f.ID, f.WhatFails)
				case code == 0:
					// The witness passes on the real packages: the defect is gone.
				case code == 1:
					// The witness fails and the twin does not absolve it: not the listed finding any more.
					fmt.Printf("witness of %s no longer reproduces the listed finding:\n%s", f.ID, out)
					dst := saveReplay(id, seed, "witness-"+f.ID, filepath.Join(verifDir, w))
					fmt.Printf("VIOLATION property=%s replay=%s\n", id, dst)
					return 1
				default:
					trouble("replaying the witness of %s failed (exit %d):\n%s", f.ID, code, out)
				}
			}
		}
	}

	// Fan out.
	var results []*workerResult
	var wg sync.WaitGroup
	var mu sync.Mutex
	cpu := 0
	per := nw / len(spec.Subs)
	if per < 1 {
		per = 1
	}
	for _, s := range spec.Subs {
		n, xenv := s.QuickN, s.QuickEnv
		if tier == "thorough" {
			n, xenv = s.ThorN, s.ThorEnv
		}
		n = int(float64(n) * scale)
		if n < 1 {
			n = 1
		}
		for i := 0; i < per; i++ {
			wr := &workerResult{env: xenv, sub: s, idx: i, dir: filepath.Join(scratch, strings.ReplaceAll(s.ID, "/", "_")+"-w"+strconv.Itoa(i))}
			results = append(results, wr)
			wg.Add(1)
			if s.Race && i%8 == 7 {
				// every eighth worker of a threaded check runs unpinned with 4 Ps
				xenv = append(append([]string(nil), xenv...), "VERIF_PARALLEL=1")
				wr.env = xenv
			}
			wn := n
			if s.Race && i%8 == 7 && wn >= 10 {
				wn /= 10 // the unpinned workers are about ten times slower
			}
			go func(wr *workerResult, cpu, n int, xenv []string) {
				defer wg.Done()
				wseed := seed*64 + uint64(wr.idx) + 1
				budget := "150s"
				if tier == "thorough" {
					budget = "90m"
				}
				out, err := runWorkerEnv(wr.sub.Race, cpu, wr.dir, xenv, "-prop", wr.sub.ID, "-budget", env("VERIF_WORKER_BUDGET", budget), "-runs", strconv.Itoa(n), "-seed", strconv.FormatUint(wseed, 10), "-out", wr.dir)
				mu.Lock()
				defer mu.Unlock()
				wr.out = out
				if ee, ok := err.(*exec.ExitError); ok {
					wr.code = ee.ExitCode()
				} else if err != nil {
					wr.code = 2
					wr.out += err.Error()
				}
				if b, err := os.ReadFile(filepath.Join(wr.dir, "stats.json")); err == nil {
					var sf statsFile
					if json.Unmarshal(b, &sf) == nil {
						wr.stats = &sf
					}
				}
			}(wr, cpu, wn, xenv)
			cpu++
		}
	}
	limit := 20 * time.Minute
	if tier == "thorough" {
		limit = 5 * time.Hour
	}
	if v := os.Getenv("VERIF_BATCH_LIMIT"); v != "" {
		if d, err := time.ParseDuration(v); err == nil {
			limit = d
		}
	}
	done := make(chan struct{})
	go func() { wg.Wait(); close(done) }()
	select {
	case <-done:
	case <-time.After(limit):
		killChildren()
		<-done
		trouble("the batch did not finish within %v (workers killed): this is a harness or sizing problem, not a violation", limit)
	}

	// Classify.
	violations := 0
	var violationLines []string
	for _, wr := range results {
		switch wr.code {
		case 0:
		case 1:
			if violations >= 3 {
				// Enough replays verified and saved; count the rest.
				violations++
				continue
			}
			fail := filepath.Join(wr.dir, "fail.json")
			code, out := replayOnce(spec, fail, "20s")
			if code != 1 && batchReplay(spec, fail, false) {
				// The minimised run alone does not fail in a fresh process, but
				// the batch does, again, at the same run: the code under test
				// carries state from one run to the next that the simulator does
				// not own. The replay file says how to replay (batch prefix).
				markBatchPrefix(fail)
				code = 1
			}
			if code != 1 {
				ff, _ := readFail(fail)
				keep := filepath.Join(buildDir, "unreproduced")
				os.MkdirAll(keep, 0o755)
				if b, err := os.ReadFile(fail); err == nil {
					os.WriteFile(filepath.Join(keep, fmt.Sprintf("%s-seed%d-%s-w%d.json", id, seed, strings.ReplaceAll(wr.sub.ID, "/", "_"), wr.idx)), b, 0o644)
				}
				trouble("worker %s/%d reported a violation (class %s, timing dependent: %v: %s) but its minimised replay did not reproduce it in a fresh process (exit %d): the simulator is not deterministic here; the file is kept under %s\n%s\n%s", wr.sub.ID, wr.idx, ff.Class, ff.TimingDependent, firstLine(ff.Detail), code, keep, out, wr.out)
			}
			dst := saveReplay(id, seed, fmt.Sprintf("%s-w%d", strings.ReplaceAll(wr.sub.ID, "/", "_"), wr.idx), fail)
			ff, _ := readFail(fail)
			fmt.Printf("violation class=%s: %s\n", ff.Class, firstLine(ff.Detail))
			violationLines = append(violationLines, fmt.Sprintf("VIOLATION property=%s replay=%s", id, dst))
			violations++
		case 3:
			if violations >= 3 {
				violations++
				continue
			}
			// Watchdog: a step did not finish. Replay what the run had drawn.
			hang := filepath.Join(wr.dir, "hang.json")
			if _, err := os.Stat(hang); err != nil {
				trouble("worker %s/%d hit the watchdog and left no record:\n%s", wr.sub.ID, wr.idx, tail(wr.out, 60))
			}
			code, out := replayOnce(spec, hang, "10s")
			if code == 3 && hangInCodeUnderTest(out) {
				dst := saveReplay(id, seed, fmt.Sprintf("%s-w%d-hang", strings.ReplaceAll(wr.sub.ID, "/", "_"), wr.idx), hang)
				fmt.Printf("violation class=hang: a call into the code under test does not return\n%s\n", tail(out, 40))
				violationLines = append(violationLines, fmt.Sprintf("VIOLATION property=%s replay=%s", id, dst))
				violations++
			} else {
				trouble("worker %s/%d hit the watchdog and the simulator cannot decide why (blocked in a primitive it does not own?):\n%s", wr.sub.ID, wr.idx, tail(out, 80))
			}
		default:
			// The worker process died. If it died of a fatal error inside the
			// code under test (stack overflow, ...), re-execute the run it was in
			// with its choices captured, and make that the replay file.
			if violations >= 3 {
				violations++
				continue
			}
			if crash := captureCrash(spec, wr, seed); crash != "" {
				code, out := replayOnce(spec, crash, "20s")
				if crashInCodeUnderTest(code, out) {
					dst := saveReplay(id, seed, fmt.Sprintf("%s-w%d-crash", strings.ReplaceAll(wr.sub.ID, "/", "_"), wr.idx), crash)
					fmt.Printf("violation class=crash: the process dies of a fatal error inside the code under test\n%s\n", firstLines(out, 12))
					violationLines = append(violationLines, fmt.Sprintf("VIOLATION property=%s replay=%s", id, dst))
					violations++
					continue
				}
			}
			trouble("worker %s/%d failed (exit %d):\n%s", wr.sub.ID, wr.idx, wr.code, tail(wr.out, 80))
		}
	}

	// Merge statistics into the evidence file.
	ev := mergeEvidence(id, tier, seed, results, time.Since(start), violations, knownActive)
	// Known findings met during the batch.
	for k := range ev.knownSeen {
		if !knownActive[k] {
			// A run was attributed to a finding whose witness did not fire: still listed, still known.
			for _, f := range ffs.Findings {
				if f.ID == k && f.Status == "known" {
					knownLines[k] = fmt.Sprintf("KNOWN-FINDING: property=%s %s: %s", id, f.ID, f.WhatFails)
				}
			}
			if _, ok := knownLines[k]; !ok {
				trouble("runs were attributed to finding %s, which known_findings.json does not list as known", k)
			}
		}
	}
	var ks []string
	for k := range knownLines {
		ks = append(ks, k)
	}
	sort.Strings(ks)
	for _, k := range ks {
		fmt.Println(knownLines[k])
	}
	if tier == "thorough" && violations == 0 {
		for _, p := range ev.missingProbes {
			trouble("probe %s never fired in a thorough batch: the workload does not reach what it claims to reach", p)
		}
	}
	fmt.Printf("%s %s: %d runs, %d distinct non-trivial, %.0f s, %d violation(s)\n", id, tier, ev.runs, ev.distinctNT, time.Since(start).Seconds(), violations)
	for _, l := range violationLines {
		fmt.Println(l)
	}
	if violations > 0 {
		return 1
	}
	return 0
}

func loadFindings() findingsFile {
	var ffs findingsFile
	if b, err := os.ReadFile(filepath.Join(verifDir, "known_findings.json")); err == nil {
		if err := json.Unmarshal(b, &ffs); err != nil {
			trouble("known_findings.json: %v", err)
		}
	}
	knownIDs = nil
	for _, f := range ffs.Findings {
		if f.Status == "known" {
			knownIDs = append(knownIDs, f.ID)
		}
	}
	return ffs
}

// hangInCodeUnderTest reports whether a watchdog dump shows a goroutine that is
// running (not parked in a synchronisation primitive) inside mds code: a call
// that spins. A goroutine blocked in a primitive the simulator does not own is
// something the simulator cannot decide.
// crashInCodeUnderTest: the worker died (not one of its own exit codes) with a
// Go fatal error whose trace goes through mds code.
func crashInCodeUnderTest(code int, out string) bool {
	if code == 0 || code == 1 || code == 3 || code == 4 {
		return false
	}
	if !strings.Contains(out, "fatal error:") && !strings.Contains(out, "goroutine stack exceeds") {
		return false
	}
	return strings.Contains(out, "github.com/creachadair/mds/") && !strings.Contains(out, "VERIF-HARNESS")
}

func firstLines(s string, n int) string {
	lines := strings.Split(s, "\n")
	if len(lines) > n {
		lines = lines[:n]
	}
	return strings.Join(lines, "\n")
}

// captureCrash re-runs a worker that died up to and including the run it was
// in, streaming that run's choices to disk, and returns the path of a replay
// file built from them ("" if that did not work out).
func captureCrash(spec propSpec, wr *workerResult, seed uint64) string {
	if !crashInCodeUnderTest(wr.code, wr.out) {
		return ""
	}
	b, err := os.ReadFile(filepath.Join(wr.dir, "runindex"))
	if err != nil || len(b) < 8 {
		return ""
	}
	k := int(binary.LittleEndian.Uint64(b))
	if k < 1 {
		return ""
	}
	dir := wr.dir + "-capture"
	wseed := seed*64 + uint64(wr.idx) + 1
	runWorkerEnv(wr.sub.Race, 0, dir, wr.env, "-prop", wr.sub.ID, "-runs", strconv.Itoa(k), "-seed", strconv.FormatUint(wseed, 10), "-out", dir, "-capture", strconv.Itoa(k))
	lines, err := os.ReadFile(filepath.Join(dir, "captured.jsonl"))
	if err != nil || len(lines) == 0 {
		return ""
	}
	var choices []json.RawMessage
	for _, l := range strings.Split(strings.TrimSpace(string(lines)), "\n") {
		if json.Valid([]byte(l)) {
			choices = append(choices, json.RawMessage(l))
		}
	}
	ff := map[string]any{"property": strings.SplitN(wr.sub.ID, "/", 2)[0], "check": wr.sub.ID, "seed": wseed, "class": "crash",
		"detail": "the process dies of a fatal error (for example a stack overflow) inside the code under test; the choices are those drawn up to that point", "choices": choices, "minimised": false}
	out, _ := json.MarshalIndent(ff, "", " ")
	path := filepath.Join(dir, "crash.json")
	if os.WriteFile(path, out, 0o644) != nil {
		return ""
	}
	return path
}

func hangInCodeUnderTest(out string) bool {
	if i := strings.Index(out, "others_parked="); i >= 0 && !strings.HasPrefix(out[i:], "others_parked=0") {
		// Other simulated threads are parked mid-work: the spinning thread may be
		// waiting for one of them (a spin lock); the simulator cannot decide.
		return false
	}
	for _, block := range strings.Split(out, "\n\n") {
		if !strings.HasPrefix(block, "goroutine ") {
			continue
		}
		header := block[:strings.IndexByte(block+"\n", '\n')]
		if !(strings.Contains(header, "[running") || strings.Contains(header, "[runnable")) {
			continue
		}
		if strings.Contains(block, "github.com/creachadair/mds/") && !strings.Contains(block, "verifsim/sched.watchdog") {
			return true
		}
	}
	return false
}

func firstLine(s string) string {
	if i := strings.IndexByte(s, '\n'); i >= 0 {
		return s[:i]
	}
	return s
}

func tail(s string, n int) string {
	lines := strings.Split(s, "\n")
	if len(lines) > n {
		lines = lines[len(lines)-n:]
	}
	return strings.Join(lines, "\n")
}

func saveReplay(id string, seed uint64, tag, src string) string {
	dir := filepath.Join(verifDir, "replays")
	if repoDir != "/repo" {
		dir = filepath.Join(buildDir, "replays-scratch")
	}
	os.MkdirAll(dir, 0o755)
	dst := filepath.Join(dir, fmt.Sprintf("%s-seed%d-%s.json", id, seed, tag))
	b, err := os.ReadFile(src)
	if err != nil {
		trouble("%v", err)
	}
	if err := os.WriteFile(dst, b, 0o644); err != nil {
		trouble("%v", err)
	}
	return dst
}

type merged struct {
	runs          int64
	distinctNT    int
	knownSeen     map[string]int64
	missingProbes []string
}

func readHashes(path string, into map[uint64]struct{}) {
	b, err := os.ReadFile(path)
	if err != nil {
		return
	}
	for i := 0; i+8 <= len(b); i += 8 {
		into[binary.LittleEndian.Uint64(b[i:])] = struct{}{}
	}
}

func mergeEvidence(id, tier string, seed uint64, results []*workerResult, wall time.Duration, violations int, knownActive map[string]bool) merged {
	m := merged{knownSeen: map[string]int64{}}
	type subEv struct {
		Runs       int64            `json:"runs"`
		Counters   map[string]int64 `json:"counters"`
		Distinct   int              `json:"distinct_event_logs"`
		DistinctNT int              `json:"distinct_nontrivial"`
		Rule       string           `json:"rule"`
		Real       []string         `json:"components_real"`
		Simulated  []string         `json:"components_simulated"`
		Seeds      []uint64         `json:"worker_seeds"`
		Known      []string         `json:"known_finding_examples,omitempty"`
	}
	subs := map[string]*subEv{}
	hashes := map[string]map[uint64]struct{}{}
	hashesNT := map[string]map[uint64]struct{}{}
	var samples []any
	required := map[string][]string{}
	for _, wr := range results {
		if wr.stats == nil {
			continue
		}
		se := subs[wr.sub.ID]
		if se == nil {
			se = &subEv{Counters: map[string]int64{}, Rule: wr.stats.Rule, Real: wr.stats.Real, Simulated: wr.stats.Simulated}
			subs[wr.sub.ID] = se
			hashes[wr.sub.ID] = map[uint64]struct{}{}
			hashesNT[wr.sub.ID] = map[uint64]struct{}{}
			required[wr.sub.ID] = wr.stats.Required
		}
		se.Runs += wr.stats.Runs
		se.Seeds = append(se.Seeds, wr.stats.Seed)
		for k, v := range wr.stats.Counters {
			if strings.HasPrefix(k, "max:") {
				if v > se.Counters[k] {
					se.Counters[k] = v
				}
			} else {
				se.Counters[k] += v
			}
			if strings.HasPrefix(k, "known:") {
				m.knownSeen[strings.TrimPrefix(k, "known:")] += v
			}
		}
		if len(se.Known) < 3 {
			se.Known = append(se.Known, wr.stats.KnownDetails...)
			if len(se.Known) > 3 {
				se.Known = se.Known[:3]
			}
		}
		readHashes(filepath.Join(wr.dir, "hashes.bin"), hashes[wr.sub.ID])
		readHashes(filepath.Join(wr.dir, "hashes-nt.bin"), hashesNT[wr.sub.ID])
		if len(samples) < 4 && len(wr.stats.Samples) > 0 {
			samples = append(samples, map[string]any{"check": wr.sub.ID, "run": wr.stats.Samples[0]})
		}
	}
	var total, dnt int64
	faults := map[string]int64{}
	probes := map[string]int64{}
	var steps int64
	for sid, se := range subs {
		se.Distinct = len(hashes[sid])
		se.DistinctNT = len(hashesNT[sid])
		total += se.Runs
		dnt += int64(se.DistinctNT)
		steps += se.Counters["steps"]
		for k, v := range se.Counters {
			switch {
			case strings.HasPrefix(k, "fault:"):
				faults[sid+" "+k] += v
			case strings.HasPrefix(k, "probe:"):
				probes[sid+" "+k] += v
			}
		}
		for _, p := range required[sid] {
			if se.Counters[p] == 0 {
				m.missingProbes = append(m.missingProbes, sid+" "+p)
			}
		}
	}
	sort.Strings(m.missingProbes)
	m.runs, m.distinctNT = total, int(dnt)
	var rules []string
	var sids []string
	for sid := range subs {
		sids = append(sids, sid)
	}
	sort.Strings(sids)
	for _, sid := range sids {
		rules = append(rules, sid+": "+subs[sid].Rule)
	}
	hours := wall.Hours()
	cov := map[string]any{
		"evaluations":                   total,
		"distinct_nontrivial":           dnt,
		"rule":                          strings.Join(rules, " || "),
		"samples":                       samples,
		"checks":                        subs,
		"simulated_runs_per_hour":       float64(total) / hours,
		"worker_seeds_per_hour":         float64(len(results)) / hours,
		"simulated_steps":               steps,
		"simulated_time_note":           "the code under test has no clock; simulated time is counted in scheduler steps / operations / reader calls",
		"fault_kinds_fired":             faults,
		"probes_fired":                  probes,
		"known_findings_seen":           m.knownSeen,
		"known_findings_witness_active": knownActive,
		"workers":                       len(results),
		"overlay":                       overlayReport,
		"exhaustive":                    false,
	}
	evd := map[string]any{
		"property_id": id,
		"tier":        tier,
		"seed":        seed,
		"level":       "exploration",
		"coverage":    cov,
		"assumptions": []string{
			"the Go race detector's vector-clock algorithm and its bounded shadow memory (a race can be missed if the shadow cells of a word are evicted between the two accesses)",
			"raw read/write system calls carry no race-detector annotation (checked by the canaries in every run of a race build)",
			"the reference models in /verif/sim/props are correct renderings of the property text",
			"seeded sampling: a clean batch is evidence, not proof",
		},
		"wall_s":     wall.Seconds(),
		"violations": violations,
	}
	b, _ := json.MarshalIndent(evd, "", " ")
	// Evidence describes runs against the repository itself; experiments that
	// point the check at a scratch copy (VERIF_REPO) write theirs elsewhere.
	evDir := filepath.Join(verifDir, "evidence")
	if repoDir != "/repo" {
		evDir = filepath.Join(buildDir, "evidence-scratch")
	}
	os.MkdirAll(evDir, 0o755)
	if err := os.WriteFile(filepath.Join(evDir, id+".json"), b, 0o644); err != nil {
		trouble("writing evidence: %v", err)
	}
	return m
}
