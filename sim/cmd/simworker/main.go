// simworker runs a batch of simulated runs of one property in one process.
//
//	simworker -prop C09 -runs N -seed S -out DIR        batch (one rapid check of N runs)
//	simworker -prop C09 -replay FILE                    replay one recorded run
//	simworker -selftest                                 harness canaries
//
// It writes DIR/stats.json (always) and DIR/fail.json (minimised failing run,
// if any). Exit status: 0 = no violation, 1 = violation (fail.json written),
// 2 = harness trouble, 3 = watchdog.
package main

import (
	"encoding/binary"
	"encoding/json"
	"flag"
	"fmt"
	"os"
	"path/filepath"
	"runtime/debug"
	"sort"
	"strings"
	"testing"
	"time"

	"pgregory.net/rapid"
	"verifsim/chooser"
	"verifsim/props"
	"verifsim/sched"
)

// tb is the testing.TB stand-in handed to rapid.
type tb struct {
	name   string
	failed bool
	log    []string
}

type failNow struct{}

func (t *tb) Helper()      {}
func (t *tb) Name() string { return t.name }
func (t *tb) Logf(format string, args ...any) {
	t.log = append(t.log, fmt.Sprintf(format, args...))
}
func (t *tb) Log(args ...any)                   { t.log = append(t.log, fmt.Sprint(args...)) }
func (t *tb) Skipf(format string, args ...any)  { panic("skip") }
func (t *tb) Skip(args ...any)                  { panic("skip") }
func (t *tb) SkipNow()                          { panic("skip") }
func (t *tb) Errorf(format string, args ...any) { t.failed = true; t.Logf(format, args...) }
func (t *tb) Error(args ...any)                 { t.failed = true; t.Log(args...) }
func (t *tb) Fatalf(format string, args ...any) { t.Errorf(format, args...); panic(failNow{}) }
func (t *tb) Fatal(args ...any)                 { t.Error(args...); panic(failNow{}) }
func (t *tb) FailNow()                          { t.failed = true; panic(failNow{}) }
func (t *tb) Fail()                             { t.failed = true }
func (t *tb) Failed() bool                      { return t.failed }

// FailFile is the replay file: the minimised run as its list of choices, plus a
// decoded trace for the reader.
type FailFile struct {
	Property string           `json:"property"`
	Sub      string           `json:"check"`
	Seed     uint64           `json:"seed"`
	Class    string           `json:"class"`
	Detail   string           `json:"detail"`
	Hash     string           `json:"event_log_fingerprint"`
	Choices  []chooser.Choice `json:"choices"`
	Trace    any              `json:"trace"`
	Shrunk   bool             `json:"minimised"`
	// TimingDependent: threads were detached during the run (they were blocked
	// in primitives the simulator does not own, or spinning), so part of the
	// interleaving was decided by the real scheduler: a replay follows the
	// recorded choices leniently and may need several attempts.
	TimingDependent bool `json:"timing_dependent,omitempty"`
	// BatchSeed/BatchRun: the worker seed and the number of the run (1-based)
	// in which the batch first failed. If the code under test carries state from
	// run to run (a package-level cache, say), the failure may only reproduce
	// by re-executing the batch up to that run: replay_mode "batch-prefix".
	BatchSeed  uint64 `json:"batch_seed,omitempty"`
	BatchRun   int    `json:"batch_first_failing_run,omitempty"`
	ReplayMode string `json:"replay_mode,omitempty"`
}

type statsFile struct {
	Property     string           `json:"property"`
	Seed         uint64           `json:"seed"`
	Runs         int64            `json:"runs"`
	Counters     map[string]int64 `json:"counters"`
	Distinct     int              `json:"distinct"`
	DistinctNT   int              `json:"distinct_nontrivial"`
	Samples      []any            `json:"samples"`
	WallS        float64          `json:"wall_s"`
	Violation    bool             `json:"violation"`
	Class        string           `json:"class,omitempty"`
	KnownDetails []string         `json:"known_details,omitempty"`
	RapidLog     []string         `json:"rapid_log,omitempty"`
	Rule         string           `json:"rule"`
	Real         []string         `json:"real"`
	Simulated    []string         `json:"simulated"`
	Required     []string         `json:"required_probes"`
}

func main() {
	var (
		prop     = flag.String("prop", "", "property / check id")
		runs     = flag.Int("runs", 1000, "number of runs")
		seed     = flag.Uint64("seed", 1, "seed")
		out      = flag.String("out", "", "output directory")
		replay   = flag.String("replay", "", "replay file")
		selftest = flag.Bool("selftest", false, "run harness canaries")
		list     = flag.Bool("list", false, "list check ids")
		wd       = flag.Duration("watchdog", 20*time.Second, "per-step real-time limit")
		findKF   = flag.String("find-known", "", "treat runs attributed to this known finding as failures (to minimise a witness)")
		budget   = flag.Duration("budget", 0, "wall-clock budget for the batch (0 = none): runs after it are skipped")
		capture  = flag.Int("capture", 0, "stream the choices of this run (1-based) to <out>/captured.jsonl as they are drawn")
	)
	testing.Init()
	flag.Parse()
	// Runaway recursion in the code under test should end the process quickly
	// (and be captured as a crash), not after growing a stack to the default
	// limit of 1 GB in every worker.
	debug.SetMaxStack(64 << 20)
	for _, k := range strings.Split(os.Getenv("VERIF_KNOWN"), ",") {
		if k != "" {
			props.KnownActive[k] = true
		}
	}
	if v := os.Getenv("VERIF_SHELL_ORACLE"); v != "" {
		fmt.Sscan(v, &props.ShellOracleMax)
	}
	if v := os.Getenv("VERIF_C19B_COUNTERS"); v != "" {
		fmt.Sscan(v, &props.C19BCounters)
	}
	sched.WatchdogLimit = *wd
	sched.InstallHooks()

	if *list {
		fmt.Println(strings.Join(props.PropertyIDs(), "\n"))
		return
	}
	if *selftest {
		if err := props.SelfTest(); err != nil {
			fmt.Fprintln(os.Stderr, "SELFTEST-FAIL:", err)
			os.Exit(2)
		}
		fmt.Println("SELFTEST-OK")
		return
	}
	p := props.Registry[*prop]
	if p == nil {
		fmt.Fprintf(os.Stderr, "unknown check %q\n", *prop)
		os.Exit(2)
	}
	if *replay != "" {
		os.Exit(doReplay(p, *replay))
	}
	if *out == "" {
		fmt.Fprintln(os.Stderr, "-out required")
		os.Exit(2)
	}
	if *findKF != "" {
		inner := p.Run
		kf := *findKF
		q := *p
		q.Run = func(ch chooser.Chooser, st *props.Stats) *props.Outcome {
			o := inner(ch, st)
			if o.Violation == nil && o.Known == kf {
				o.Violation = &props.Violation{Class: "known:" + kf, Detail: o.KnownDetail}
				o.Known = ""
			} else {
				o.Violation = nil
			}
			return o
		}
		p = &q
	}
	captureRun = *capture
	wallBudget = *budget
	os.Exit(batch(p, *runs, *seed, *out))
}

var captureRun int
var wallBudget time.Duration

func batch(p *props.Property, runs int, seed uint64, out string) int {
	// The number of the run in progress is kept in a file, so that a crash of
	// the whole process (a fatal error in the code under test, such as a stack
	// overflow) can be re-executed with its choices captured.
	idx, _ := os.OpenFile(filepath.Join(out, "runindex"), os.O_CREATE|os.O_WRONLY, 0o644)
	runNo := 0
	var captureFile *os.File
	firstFailRun := 0
	if seed == 0 {
		seed = 0x9e3779b97f4a7c15 // rapid treats 0 as "pick a random seed"
	}
	flag.Set("rapid.seed", fmt.Sprint(seed))
	flag.Set("rapid.checks", fmt.Sprint(runs))
	flag.Set("rapid.nofailfile", "true")
	if os.Getenv("VERIF_SHRINKTIME") != "" {
		flag.Set("rapid.shrinktime", os.Getenv("VERIF_SHRINKTIME"))
	}
	st := props.NewStats()
	st.KeepSeq = os.Getenv("VERIF_KEEPSEQ") != ""
	t := &tb{name: p.ID}
	start := time.Now()
	var (
		failClass string
		lastFail  *FailFile
		known     []string
		firstFail *FailFile
	)
	var curChooser *chooser.Rapid
	memo := map[uint64]*props.Violation{}
	sched.WatchdogInfo = func() string {
		// Best effort: dump what the hung run had drawn so far.
		if curChooser == nil {
			return ""
		}
		ff := FailFile{Property: propOf(p.ID), Sub: p.ID, Seed: seed, Class: "hang", Detail: "a call did not return within the watchdog limit", Choices: curChooser.Record()}
		b, _ := json.Marshal(ff)
		path := filepath.Join(out, "hang.json")
		os.WriteFile(path, b, 0o644)
		return path
	}
	func() {
		defer func() {
			if r := recover(); r != nil {
				if _, ok := r.(failNow); !ok {
					panic(r)
				}
			}
		}()
		rapid.Check(t, func(rt *rapid.T) {
			if wallBudget > 0 && !st.Frozen && time.Since(start) > wallBudget {
				// Out of time (code under test that blocks in primitives the
				// simulator does not own makes runs hundreds of times slower):
				// the remaining runs are skipped and the evidence says so.
				st.Counters["runs_skipped_wall_budget_exhausted"]++
				return
			}
			ch := chooser.NewRapid(rt)
			curChooser = ch
			if !st.Frozen {
				runNo++
				if idx != nil {
					var b [8]byte
					binary.LittleEndian.PutUint64(b[:], uint64(runNo))
					idx.WriteAt(b[:], 0)
				}
				if captureRun > 0 && runNo == captureRun {
					captureFile, _ = os.Create(filepath.Join(out, "captured.jsonl"))
					ch.Stream = captureFile
				}
			}
			o := p.Run(ch, st)
			if sched.Tainted > 0 {
				// A simulated thread was abandoned blocked or spinning: this
				// process cannot go on (and cannot shrink). Report what this run
				// showed and stop.
				st.Record(o)
				sf := statsFile{Property: p.ID, Seed: seed, Runs: st.Counters["runs"], Counters: st.Counters, Distinct: len(st.Hashes),
					DistinctNT: len(st.NTHashes), Samples: st.Samples, WallS: time.Since(start).Seconds(),
					Rule: p.Rule, Real: p.Real, Simulated: p.Simulated, Required: p.RequiredProbes}
				if o.Violation != nil {
					ff := &FailFile{Property: propOf(p.ID), Sub: p.ID, Seed: seed, Class: o.Violation.Class, Detail: o.Violation.Detail,
						Hash: fmt.Sprintf("%016x", o.Hash), Choices: append([]chooser.Choice(nil), ch.Record()...), TimingDependent: true}
					if o.Trace != nil {
						ff.Trace = o.Trace()
					}
					sf.Violation, sf.Class = true, ff.Class
					writeJSON(filepath.Join(out, "fail.json"), ff)
					writeJSON(filepath.Join(out, "stats.json"), sf)
					os.Exit(1)
				}
				writeJSON(filepath.Join(out, "stats.json"), sf)
				fmt.Fprintln(os.Stderr, "VERIF-HARNESS: a simulated thread was abandoned (blocked outside the simulator's primitives or spinning) in a run that showed no violation")
				os.Exit(2)
			}
			// The race detector is a lossy observer (four shadow slots per word,
			// evicted pseudo-randomly depending on the process history), so the
			// very same schedule can be flagged in one execution and not in the
			// next. A report is never a false positive: once a choice list has
			// been seen to fail, that verdict stands for the rest of the process.
			key := choiceKey(ch.Record())
			if o.Violation != nil {
				memo[key] = o.Violation
			} else if v := memo[key]; v != nil && o.Known == "" {
				o.Violation = v
			}
			st.Record(o)
			if o.Known != "" && len(known) < 5 && !st.Frozen {
				known = append(known, o.Known+": "+o.KnownDetail)
			}
			if o.Violation == nil {
				return
			}
			if failClass == "" {
				failClass = o.Violation.Class
				st.Frozen = true
			}
			if o.Violation.Class != failClass {
				return // shrinking must not drift into a different violation
			}
			ff := &FailFile{Property: propOf(p.ID), Sub: p.ID, Seed: seed, Class: o.Violation.Class, Detail: o.Violation.Detail,
				Hash: fmt.Sprintf("%016x", o.Hash), Choices: append([]chooser.Choice(nil), ch.Record()...), TimingDependent: o.Detached > 0}
			if o.Trace != nil {
				ff.Trace = o.Trace()
			}
			if firstFail == nil {
				firstFail = ff
				firstFailRun = runNo
			}
			ff.BatchSeed, ff.BatchRun = seed, firstFailRun
			lastFail = ff
			rt.Fatalf("%s", o.Violation.Class)
		})
	}()
	finishErr := error(nil)
	if p.Finish != nil && lastFail == nil {
		st.Frozen = false
		finishErr = p.Finish(st)
	}
	sf := statsFile{Property: p.ID, Seed: seed, Runs: st.Counters["runs"], Counters: st.Counters, Distinct: len(st.Hashes),
		DistinctNT: len(st.NTHashes), Samples: st.Samples, WallS: time.Since(start).Seconds(), KnownDetails: known,
		Rule: p.Rule, Real: p.Real, Simulated: p.Simulated, Required: p.RequiredProbes}
	code := 0
	if lastFail != nil {
		lastFail.Shrunk = true
		sf.Violation, sf.Class = true, lastFail.Class
		sf.RapidLog = t.log
		writeJSON(filepath.Join(out, "fail.json"), lastFail)
		writeJSON(filepath.Join(out, "fail-unshrunk.json"), firstFail)
		code = 1
	} else if t.failed {
		// rapid itself complained (flaky reproduction etc.): harness trouble.
		sf.RapidLog = t.log
		fmt.Fprintln(os.Stderr, "VERIF-HARNESS: rapid reported a failure without a violation:\n"+strings.Join(t.log, "\n"))
		code = 2
	}
	if finishErr != nil && code == 0 {
		fmt.Fprintln(os.Stderr, "VERIF-HARNESS:", finishErr)
		code = 2
	}
	writeJSON(filepath.Join(out, "stats.json"), sf)
	writeHashes(filepath.Join(out, "hashes.bin"), st.Hashes)
	writeHashes(filepath.Join(out, "hashes-nt.bin"), st.NTHashes)
	if st.KeepSeq {
		buf := make([]byte, 8*len(st.Seq))
		for i, h := range st.Seq {
			binary.LittleEndian.PutUint64(buf[8*i:], h)
		}
		os.WriteFile(filepath.Join(out, "seq.bin"), buf, 0o644)
	}
	return code
}

func choiceKey(cs []chooser.Choice) uint64 {
	h := uint64(14695981039346656037)
	for _, c := range cs {
		for _, v := range [2]uint64{c.N, c.V} {
			for i := 0; i < 8; i++ {
				h ^= v & 0xff
				h *= 1099511628211
				v >>= 8
			}
		}
	}
	return h
}

func propOf(id string) string {
	if i := strings.IndexByte(id, '/'); i >= 0 {
		return id[:i]
	}
	return id
}

func writeJSON(path string, v any) {
	b, err := json.MarshalIndent(v, "", " ")
	if err != nil {
		fmt.Fprintln(os.Stderr, "marshal:", err)
		os.Exit(2)
	}
	if err := os.WriteFile(path, b, 0o644); err != nil {
		fmt.Fprintln(os.Stderr, "write:", err)
		os.Exit(2)
	}
}

func writeHashes(path string, m map[uint64]struct{}) {
	hs := make([]uint64, 0, len(m))
	for h := range m {
		hs = append(hs, h)
	}
	sort.Slice(hs, func(i, j int) bool { return hs[i] < hs[j] })
	buf := make([]byte, 8*len(hs))
	for i, h := range hs {
		binary.LittleEndian.PutUint64(buf[8*i:], h)
	}
	os.WriteFile(path, buf, 0o644)
}

// doReplay re-executes a recorded run from its choice list, in this fresh
// process, and requires the same violation class and the same event log.
func doReplay(p *props.Property, path string) int {
	b, err := os.ReadFile(path)
	if err != nil {
		fmt.Fprintln(os.Stderr, err)
		return 2
	}
	var ff FailFile
	if err := json.Unmarshal(b, &ff); err != nil {
		fmt.Fprintln(os.Stderr, "replay file:", err)
		return 2
	}
	var o *props.Outcome
	var diverged string
	attempts := 3
	if ff.Class == "biased-estimate" {
		// If the code under test has found entropy the simulator does not own,
		// a statistical verdict can differ between processes; try a few times.
		attempts = 8
	}
	if ff.Class == "data-race" {
		// See the note in batch(): the schedule replays exactly, the detector's
		// memory of earlier accesses is lossy. Re-execute the identical schedule
		// until the detector reports (it never reports a race that is not there).
		attempts = 40
	}
	padZero = ff.Class == "hang"
	lenient = ff.TimingDependent
	if lenient {
		attempts = 25
	}
	for a := 0; a < attempts; a++ {
		o, diverged = replayOnce(p, ff.Choices)
		if diverged != "" && !lenient && ff.Class != "" {
			// The run asked different questions than the recorded one: the code
			// under test carries state from one run to the next that the
			// simulator does not reset (a package-level cache, say), so a fresh
			// process starts from somewhere else. Follow the recorded choices
			// leniently from here on.
			fmt.Printf("REPLAY-INEXACT strict replay diverged (%s): the code under test keeps state between runs that the simulator does not own; following the choices leniently\n", diverged)
			lenient, inexact = true, true
			if attempts < 25 {
				attempts = 25
			}
			continue
		}
		if diverged != "" || (o.Violation != nil && o.Violation.Class == ff.Class) {
			break
		}
	}
	if diverged != "" {
		fmt.Printf("REPLAY-DIVERGED %s\n", diverged)
		return 4
	}
	if o.Violation == nil {
		if o.Known != "" {
			fmt.Printf("REPLAY-KNOWN %s %s\n", o.Known, o.KnownDetail)
			return 0
		}
		if exhausted {
			fmt.Println("REPLAY-PASS the run continued past the point at which the recorded run failed")
			return 0
		}
		fmt.Printf("REPLAY-PASS fingerprint=%016x\n", o.Hash)
		return 0
	}
	h := fmt.Sprintf("%016x", o.Hash)
	fmt.Printf("REPLAY-VIOLATION class=%s fingerprint=%s detail=%s\n", o.Violation.Class, h, o.Violation.Detail)
	if ff.Class != "" && o.Violation.Class != ff.Class {
		fmt.Printf("REPLAY-MISMATCH recorded class=%s fingerprint=%s\n", ff.Class, ff.Hash)
		return 4
	}
	if ff.Hash != "" && ff.Hash != h && !ff.TimingDependent && !inexact {
		// Same violation, different event log: the code under test contains a
		// source of nondeterminism the simulator does not own (for instance a
		// map range or a pool that the overlay does not reach). The violation is
		// real - it happened again in this fresh process - but the replay is
		// only "same class", not "same run".
		fmt.Printf("REPLAY-INEXACT recorded fingerprint=%s: same violation class, different event log (nondeterminism outside the simulator's seams)\n", ff.Hash)
	}
	return 1
}

var exhausted bool
var padZero bool
var lenient bool
var inexact bool

func replayOnce(p *props.Property, cs []chooser.Choice) (o *props.Outcome, diverged string) {
	defer func() {
		switch r := recover().(type) {
		case nil:
		case chooser.Diverged:
			diverged = r.Error()
		case chooser.Exhausted:
			// The run got past the point at which the recorded run failed.
			o, diverged = &props.Outcome{}, ""
			exhausted = true
		default:
			panic(r)
		}
	}()
	l := chooser.NewList(cs, true)
	l.PadZero = padZero
	l.Lenient = lenient
	o = p.Run(l, props.NewStats())
	return o, ""
}
