// verif-overlay generates the build overlay that puts mds's environment-owned
// nondeterminism behind simulator seams, from the CURRENT files of the
// repository. Nothing is written into the repository.
//
//	verif-overlay -repo /repo -src /verif/sim/overlaysrc -out <dir>
//
// writes <dir>/overlay.json, the rewritten files and <dir>/report.json.
//
// All rewrites are splices into the original source text (no reformatting), so
// line numbers of the code under test are unchanged.
package main

import (
	"encoding/json"
	"flag"
	"fmt"
	"go/ast"
	"go/parser"
	"go/token"
	"os"
	"path/filepath"
	"sort"
	"strconv"
	"strings"
)

const (
	modPath    = "github.com/creachadair/mds"
	simsyncPkg = modPath + "/verifsim/simsync"
)

type edit struct {
	start, end int
	text       string
}

type report struct {
	Repo        string         `json:"repo"`
	Rewrites    map[string]int `json:"rewrites"`     // kind -> count
	Files       []string       `json:"files"`        // overlaid repository paths
	TwinPatched bool           `json:"twin_patched"` // both heapq call sites of KF1 found and patched
	TwinNotes   []string       `json:"twin_notes"`
	Pools       []string       `json:"pools"`
	Warnings    []string       `json:"warnings"`
}

var (
	rep     = report{Rewrites: map[string]int{}}
	overlay = map[string]string{}
	outDir  string
	repo    string
)

func main() {
	srcDir := ""
	flag.StringVar(&repo, "repo", "/repo", "repository root")
	flag.StringVar(&srcDir, "src", "", "directory with overlay source templates")
	flag.StringVar(&outDir, "out", "", "output directory")
	flag.Parse()
	if outDir == "" || srcDir == "" {
		die("usage: verif-overlay -repo R -src S -out O")
	}
	var err error
	repo, err = filepath.Abs(repo)
	check(err)
	outDir, err = filepath.Abs(outDir)
	check(err)
	rep.Repo = repo
	check(os.MkdirAll(outDir, 0o755))

	// 1. simsync (new package).
	b, err := os.ReadFile(filepath.Join(srcDir, "simsync.go.txt"))
	check(err)
	emit("verifsim/simsync/simsync.go", b)

	// 2. cache: swap mutex types; accessor file.
	cacheFiles := goFiles("cache")
	for _, f := range cacheFiles {
		src := read(f)
		out := swapSync(f, src, "")
		emit(f, out)
	}
	clockStruct, clockType := findClockField(cacheFiles)
	emit("cache/zz_verifsim.go", []byte(cacheAccessor("cache", clockStruct, clockType)))

	// 3. shell: swap pool types; accessor listing the pools.
	var pools []string
	for _, f := range goFiles("shell") {
		src := read(f)
		pools = append(pools, findPools(f, src)...)
		emit(f, swapSync(f, src, ""))
	}
	rep.Pools = pools
	emit("shell/zz_verifsim.go", []byte(shellAccessor(pools)))

	// 4. distinct: wrap the range over the buffer map; accessor constructor.
	for _, f := range goFiles("distinct") {
		src := read(f)
		emit(f, wrapMapRange(f, swapSync(f, src, "")))
	}
	injectable := false
	for _, f := range goFiles("distinct") {
		if hasSourceField(f, read(f)) {
			injectable = true
		}
	}
	if injectable {
		emit("distinct/zz_verifsim.go", []byte(distinctAccessor))
	} else {
		rep.Warnings = append(rep.Warnings, "distinct: Counter has no field `rng` of type rand.Source; the random source cannot be replaced (runs use the package's own entropy and are not exactly replayable)")
		emit("distinct/zz_verifsim.go", []byte(distinctAccessorStub))
	}

	// 5. differential twin for known finding KF1.
	patched := true
	for _, f := range goFiles("heapq") {
		src := read(f)
		out, ok := patchHeapq(f, src)
		if filepath.Base(f) == "heapq.go" && !ok {
			patched = false
		}
		emit("verifsim/heapqfix/"+filepath.Base(f), out)
	}
	rep.TwinPatched = patched && rep.Rewrites["twin.pushUp.parent"] == 1 && rep.Rewrites["twin.pop.siftup"] == 1
	for _, f := range cacheFiles {
		src := read(f)
		out := swapSync(f, src, modPath+"/heapq")
		emit("verifsim/cachefix/"+filepath.Base(f), out)
	}
	emit("verifsim/cachefix/zz_verifsim.go", []byte(cacheAccessor("cache", clockStruct, clockType)))

	// 6. info file for the harness.
	spawns := false
	for _, pkg := range []string{"cache", "shell", "distinct", "heapq", "mapset"} {
		for _, f := range goFiles(pkg) {
			if spawnsGoroutines(f, read(f)) {
				spawns = true
				rep.Warnings = append(rep.Warnings, f+": starts goroutines of its own; the simulator does not schedule those (calls from them get real sync behaviour)")
			}
		}
	}
	info := fmt.Sprintf("package simsync\n\n// TwinPatched reports whether the differential twin carries the KF1 repair.\nconst TwinPatched = %v\n\n// SpawnsGoroutines reports whether the simulated packages contain go statements\n// (or time.AfterFunc): then every seam call checks which goroutine is calling.\nconst SpawnsGoroutines = %v\n", rep.TwinPatched, spawns)
	emit("verifsim/simsync/zz_info.go", []byte(info))

	ob, _ := json.MarshalIndent(map[string]any{"Replace": overlay}, "", " ")
	check(os.WriteFile(filepath.Join(outDir, "overlay.json"), ob, 0o644))
	sort.Strings(rep.Files)
	rb, _ := json.MarshalIndent(rep, "", " ")
	check(os.WriteFile(filepath.Join(outDir, "report.json"), rb, 0o644))
}

func die(msg string) {
	fmt.Fprintln(os.Stderr, "verif-overlay:", msg)
	os.Exit(2)
}

func check(err error) {
	if err != nil {
		die(err.Error())
	}
}

func read(rel string) []byte {
	b, err := os.ReadFile(filepath.Join(repo, rel))
	check(err)
	return b
}

// goFiles lists the non-test Go files of a package directory (relative paths).
func goFiles(pkg string) []string {
	ents, err := os.ReadDir(filepath.Join(repo, pkg))
	check(err)
	var out []string
	for _, e := range ents {
		n := e.Name()
		if e.IsDir() || !strings.HasSuffix(n, ".go") || strings.HasSuffix(n, "_test.go") || strings.HasPrefix(n, "zz_verifsim") {
			continue
		}
		out = append(out, filepath.Join(pkg, n))
	}
	sort.Strings(out)
	return out
}

func emit(rel string, content []byte) {
	dst := filepath.Join(outDir, "files", rel)
	check(os.MkdirAll(filepath.Dir(dst), 0o755))
	// Files are stored with a .txt suffix so that no Go tool mistakes the
	// output directory for a package.
	dst += ".txt"
	check(os.WriteFile(dst, content, 0o644))
	overlay[filepath.Join(repo, rel)] = dst
	rep.Files = append(rep.Files, rel)
}

func apply(src []byte, edits []edit) []byte {
	sort.Slice(edits, func(i, j int) bool { return edits[i].start > edits[j].start })
	out := append([]byte(nil), src...)
	for _, e := range edits {
		out = append(out[:e.start:e.start], append([]byte(e.text), out[e.end:]...)...)
	}
	return out
}

func parse(name string, src []byte) (*token.FileSet, *ast.File) {
	fset := token.NewFileSet()
	f, err := parser.ParseFile(fset, name, src, parser.ParseComments)
	if err != nil {
		die(fmt.Sprintf("parse %s: %v", name, err))
	}
	return fset, f
}

// importName returns the local name under which path is imported ("" if not).
func importName(f *ast.File, path string) (string, *ast.ImportSpec) {
	for _, is := range f.Imports {
		p, _ := strconv.Unquote(is.Path.Value)
		if p != path {
			continue
		}
		if is.Name != nil {
			return is.Name.Name, is
		}
		return path[strings.LastIndex(path, "/")+1:], is
	}
	return "", nil
}

// swapSync replaces the type expressions sync.Mutex, sync.RWMutex and
// sync.Pool by their simsync counterparts. If heapqFrom is non-empty the
// import of that path is redirected to the twin heap package.
func swapSync(name string, src []byte, heapqFrom string) []byte {
	fset, f := parse(name, src)
	off := func(p token.Pos) int { return fset.Position(p).Offset }
	var edits []edit
	syncName, syncSpec := importName(f, "sync")
	swapped, remaining := 0, 0
	if syncName != "" && syncName != "_" && syncName != "." {
		ast.Inspect(f, func(n ast.Node) bool {
			se, ok := n.(*ast.SelectorExpr)
			if !ok {
				return true
			}
			id, ok := se.X.(*ast.Ident)
			if !ok || id.Name != syncName || id.Obj != nil {
				return true
			}
			switch se.Sel.Name {
			case "Mutex", "RWMutex", "Pool", "Cond", "Once", "NewCond":
				edits = append(edits, edit{off(id.Pos()), off(id.End()), "simsync"})
				swapped++
				rep.Rewrites["sync."+se.Sel.Name]++
			default:
				remaining++
			}
			return true
		})
	}
	// sync/atomic: types and functions become simsync wrappers that yield.
	atomicName, atomicSpec := importName(f, "sync/atomic")
	aSwapped, aRemaining := 0, 0
	if atomicName != "" && atomicName != "_" && atomicName != "." {
		ast.Inspect(f, func(n ast.Node) bool {
			se, ok := n.(*ast.SelectorExpr)
			if !ok {
				return true
			}
			id, ok := se.X.(*ast.Ident)
			if !ok || id.Name != atomicName || id.Obj != nil {
				return true
			}
			if atomicWrapped[se.Sel.Name] {
				edits = append(edits, edit{off(se.Pos()), off(se.End()), "simsync.Atomic" + se.Sel.Name})
				aSwapped++
				rep.Rewrites["atomic."+se.Sel.Name]++
			} else {
				aRemaining++
			}
			return true
		})
		if aSwapped > 0 && aRemaining == 0 {
			if atomicSpec.Name != nil {
				edits = append(edits, edit{off(atomicSpec.Name.Pos()), off(atomicSpec.Name.End()), "_"})
			} else {
				edits = append(edits, edit{off(atomicSpec.Path.Pos()), off(atomicSpec.Path.Pos()), "_ "})
			}
		}
	}
	swapped += aSwapped
	if swapped > 0 {
		// Keep line numbers: put the new import on the package clause's line.
		edits = append(edits, edit{off(f.Name.End()), off(f.Name.End()), "; import simsync \"" + simsyncPkg + "\""})
		if remaining == 0 && swapped > aSwapped {
			if syncSpec.Name != nil {
				edits = append(edits, edit{off(syncSpec.Name.Pos()), off(syncSpec.Name.End()), "_"})
			} else {
				edits = append(edits, edit{off(syncSpec.Path.Pos()), off(syncSpec.Path.Pos()), "_ "})
			}
		}
	}
	if heapqFrom != "" {
		if _, is := importName(f, heapqFrom); is != nil {
			txt := strconv.Quote(modPath + "/verifsim/heapqfix")
			if is.Name == nil {
				txt = "heapq " + txt
			}
			edits = append(edits, edit{off(is.Path.Pos()), off(is.Path.End()), txt})
			rep.Rewrites["twin.import"]++
		}
	}
	return apply(src, edits)
}

// atomicWrapped lists the names of sync/atomic that simsync wraps.
var atomicWrapped = func() map[string]bool {
	m := map[string]bool{"Bool": true, "Pointer": true, "Value": true}
	for _, n := range []string{"Int32", "Int64", "Uint32", "Uint64", "Uintptr"} {
		m[n] = true
		for _, f := range []string{"Load", "Store", "Add", "Swap", "CompareAndSwap"} {
			m[f+n] = true
		}
	}
	return m
}()

// findPools lists package-level variables initialised with a sync.Pool
// literal (by value or by address).
func findPools(name string, src []byte) []string {
	_, f := parse(name, src)
	syncName, _ := importName(f, "sync")
	var out []string
	for _, d := range f.Decls {
		gd, ok := d.(*ast.GenDecl)
		if !ok || gd.Tok != token.VAR {
			continue
		}
		for _, sp := range gd.Specs {
			vs := sp.(*ast.ValueSpec)
			for i, nm := range vs.Names {
				isPool, ptr := false, false
				if vs.Type != nil {
					isPool, ptr = poolType(vs.Type, syncName)
				}
				if !isPool && i < len(vs.Values) {
					v := vs.Values[i]
					if ue, ok := v.(*ast.UnaryExpr); ok && ue.Op == token.AND {
						if cl, ok := ue.X.(*ast.CompositeLit); ok {
							if p, _ := poolType(cl.Type, syncName); p {
								isPool, ptr = true, true
							}
						}
					} else if cl, ok := v.(*ast.CompositeLit); ok {
						if p, _ := poolType(cl.Type, syncName); p {
							isPool, ptr = true, false
						}
					}
				}
				if isPool {
					if ptr {
						out = append(out, nm.Name)
					} else {
						out = append(out, "&"+nm.Name)
					}
				}
			}
		}
	}
	return out
}

func poolType(e ast.Expr, syncName string) (isPool, ptr bool) {
	if st, ok := e.(*ast.StarExpr); ok {
		p, _ := poolType(st.X, syncName)
		return p, true
	}
	se, ok := e.(*ast.SelectorExpr)
	if !ok {
		return false, false
	}
	id, ok := se.X.(*ast.Ident)
	return ok && id.Name == syncName && se.Sel.Name == "Pool", false
}

// wrapMapRange wraps the range expression of every `range <x>.buf` statement
// in simsync.MapOrder(...).
func wrapMapRange(name string, src []byte) []byte {
	fset, f := parse(name, src)
	off := func(p token.Pos) int { return fset.Position(p).Offset }
	var edits []edit
	ast.Inspect(f, func(n ast.Node) bool {
		rs, ok := n.(*ast.RangeStmt)
		if !ok {
			return true
		}
		se, ok := rs.X.(*ast.SelectorExpr)
		if !ok || se.Sel.Name != "buf" {
			return true
		}
		edits = append(edits, edit{off(rs.X.Pos()), off(rs.X.Pos()), "simsync.MapOrder("})
		edits = append(edits, edit{off(rs.X.End()), off(rs.X.End()), ")"})
		rep.Rewrites["distinct.maprange"]++
		return true
	})
	if len(edits) == 0 {
		if filepath.Base(name) == "distinct.go" {
			rep.Warnings = append(rep.Warnings, "distinct: no `range <x>.buf` statement found; map iteration order is not simulated")
		}
		return src
	}
	if !strings.Contains(string(src), simsyncPkg) {
		edits = append(edits, edit{off(f.Name.End()), off(f.Name.End()), "; import simsync \"" + simsyncPkg + "\""})
	}
	return apply(src, edits)
}

// patchHeapq applies the KF1 repair to the twin copy of heapq.go:
//
//	pushUp: par := i / 2          ->  par := (i - 1) / 2
//	pop:    q.pushDown(i)         ->  if i < n && q.pushDown(i) == i { q.pushUp(i) }
func patchHeapq(name string, src []byte) ([]byte, bool) {
	fset, f := parse(name, src)
	off := func(p token.Pos) int { return fset.Position(p).Offset }
	text := func(n ast.Node) string { return string(src[off(n.Pos()):off(n.End())]) }
	var edits []edit
	for _, d := range f.Decls {
		fd, ok := d.(*ast.FuncDecl)
		if !ok || fd.Recv == nil || fd.Body == nil {
			continue
		}
		switch fd.Name.Name {
		case "pushUp":
			ast.Inspect(fd.Body, func(n ast.Node) bool {
				as, ok := n.(*ast.AssignStmt)
				if ok && len(as.Rhs) == 1 && squash(text(as)) == "par:=i/2" {
					edits = append(edits, edit{off(as.Rhs[0].Pos()), off(as.Rhs[0].End()), "(i - 1) / 2"})
					rep.Rewrites["twin.pushUp.parent"]++
				}
				return true
			})
		case "pop":
			ast.Inspect(fd.Body, func(n ast.Node) bool {
				es, ok := n.(*ast.ExprStmt)
				if ok && squash(text(es)) == "q.pushDown(i)" {
					edits = append(edits, edit{off(es.Pos()), off(es.End()), "if i < n && q.pushDown(i) == i { q.pushUp(i) }"})
					rep.Rewrites["twin.pop.siftup"]++
				}
				return true
			})
		}
	}
	if len(edits) != 2 {
		if filepath.Base(name) == "heapq.go" {
			rep.TwinNotes = append(rep.TwinNotes, fmt.Sprintf("%s: %d of 2 KF1 call sites matched; twin is an unpatched copy", name, len(edits)))
		}
		return src, false
	}
	return apply(src, edits), true
}

// spawnsGoroutines reports whether the file contains a go statement or a call
// whose selector is AfterFunc.
func spawnsGoroutines(name string, src []byte) bool {
	_, f := parse(name, src)
	found := false
	ast.Inspect(f, func(n ast.Node) bool {
		switch x := n.(type) {
		case *ast.GoStmt:
			found = true
		case *ast.SelectorExpr:
			if x.Sel.Name == "AfterFunc" {
				found = true
			}
		}
		return !found
	})
	return found
}

func squash(s string) string {
	return strings.Join(strings.Fields(s), "")
}

// findClockField looks for a generic struct type with two type parameters and
// an integer field named "clock" (the LRU store's logical clock). It returns the
// struct's name and the field's type, or "", "".
func findClockField(files []string) (string, string) {
	for _, name := range files {
		_, f := parse(name, read(name))
		for _, d := range f.Decls {
			gd, ok := d.(*ast.GenDecl)
			if !ok || gd.Tok != token.TYPE {
				continue
			}
			for _, sp := range gd.Specs {
				ts := sp.(*ast.TypeSpec)
				st, ok := ts.Type.(*ast.StructType)
				if !ok || ts.TypeParams == nil || ts.TypeParams.NumFields() != 2 {
					continue
				}
				for _, fld := range st.Fields.List {
					id, ok := fld.Type.(*ast.Ident)
					if !ok {
						continue
					}
					switch id.Name {
					case "int", "int32", "int64", "uint", "uint32", "uint64":
					default:
						continue
					}
					for _, n := range fld.Names {
						if n.Name == "clock" {
							rep.Rewrites["cache.clock-accessor"]++
							return ts.Name.Name, id.Name
						}
					}
				}
			}
		}
	}
	rep.Warnings = append(rep.Warnings, "cache: no integer field named clock in a two-parameter generic struct; simulated uptime is not available")
	return "", ""
}

func cacheAccessor(pkg, clockStruct, clockType string) string {
	advance := `
// VerifAdvanceClock is not available for this store (no logical clock found).
func VerifAdvanceClock[K comparable, V any](cfg Config[K, V], delta int64) bool { return false }
`
	if clockStruct != "" {
		advance = `
// VerifAdvanceClock simulates earlier use of the store: it advances the store's
// logical clock by delta, as delta earlier accesses would have. It exists only
// in the /verif build overlay.
func VerifAdvanceClock[K comparable, V any](cfg Config[K, V], delta int64) bool {
	s, ok := cfg.store.(*` + clockStruct + `[K, V])
	if !ok {
		return false
	}
	// One modular addition: a narrow clock ends up where delta single steps
	// would have left it.
	s.clock += ` + clockType + `(delta)
	return true
}
`
	}
	return `package ` + pkg + `
` + advance + `

// VerifWrapStore returns cfg with its store replaced by wrap(store). It exists
// only in the /verif build overlay: it lets the simulator put a yielding wrapper
// around the real store, which is otherwise unreachable behind Config.
func VerifWrapStore[K comparable, V any](cfg Config[K, V], wrap func(Store[K, V]) Store[K, V]) Config[K, V] {
	cfg.store = wrap(cfg.store)
	return cfg
}
`
}

func shellAccessor(pools []string) string {
	var b strings.Builder
	b.WriteString("package shell\n\nimport simsync \"" + simsyncPkg + "\"\n\n")
	b.WriteString("// VerifPools lists the package's pools (only in the /verif build overlay).\n")
	b.WriteString("func VerifPools() []*simsync.Pool {\n\treturn []*simsync.Pool{")
	b.WriteString(strings.Join(pools, ", "))
	b.WriteString("}\n}\n")
	return b.String()
}

// hasSourceField reports whether the file declares a struct type Counter with a
// field named rng whose type is written rand.Source.
func hasSourceField(name string, src []byte) bool {
	_, f := parse(name, src)
	found := false
	ast.Inspect(f, func(n ast.Node) bool {
		ts, ok := n.(*ast.TypeSpec)
		if !ok || ts.Name.Name != "Counter" {
			return true
		}
		st, ok := ts.Type.(*ast.StructType)
		if !ok {
			return true
		}
		for _, fld := range st.Fields.List {
			se, ok := fld.Type.(*ast.SelectorExpr)
			if !ok || se.Sel.Name != "Source" {
				continue
			}
			for _, nm := range fld.Names {
				if nm.Name == "rng" {
					found = true
				}
			}
		}
		return true
	})
	return found
}

const distinctAccessorStub = `package distinct

import "math/rand/v2"

// VerifSourceInjectable: the overlay could not find a replaceable source.
const VerifSourceInjectable = false

// VerifNewCounter falls back to the real constructor (src is ignored).
func VerifNewCounter[T comparable](size int, src rand.Source) *Counter[T] {
	return NewCounter[T](size)
}
`

const distinctAccessor = `package distinct

import "math/rand/v2"

// VerifSourceInjectable: the counter's random source can be replaced.
const VerifSourceInjectable = true

// VerifNewCounter is NewCounter with the random source replaced. It exists only
// in the /verif build overlay.
func VerifNewCounter[T comparable](size int, src rand.Source) *Counter[T] {
	c := NewCounter[T](size)
	c.rng = src
	return c
}
`
