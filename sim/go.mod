module verifsim

go 1.23

require (
	github.com/anishathalye/porcupine v1.3.0
	github.com/creachadair/mds v0.0.0
	pgregory.net/rapid v1.3.0
)

replace github.com/creachadair/mds => /repo
