package props

import (
	"fmt"

	"github.com/creachadair/mds/cache"
	cachefix "github.com/creachadair/mds/verifsim/cachefix"
	"github.com/creachadair/mds/verifsim/simsync"
	"verifsim/sched"
)

// cacheAPI is the public surface of cache.Cache[int,int]; the real package and
// the differential twin (DESIGN.md 5.2) both satisfy it.
type cacheAPI interface {
	Has(int) bool
	Get(int) (int, bool)
	Put(int, int) bool
	Remove(int) bool
	Len() int
	Size() int64
	Clear()
}

// storeAPI has the method set of cache.Store[int,int].
type storeAPI interface {
	Access(int) (int, bool)
	Check(int) (int, bool)
	Store(int, int)
	Remove(int)
	Evict() (int, int)
}

// Preemption sites inside the critical sections (payload A of KPoint events).
const (
	siteCheck = 1 + iota
	siteAccess
	siteStore
	siteRemove
	siteEvict
	siteSizeOf
	siteCallback
)

// yieldStore wraps the real store: every store call is a preemption point.
type yieldStore struct{ inner storeAPI }

func (y *yieldStore) Access(k int) (int, bool) {
	sched.Yield(sched.KPoint, siteAccess, int64(k))
	return y.inner.Access(k)
}
func (y *yieldStore) Check(k int) (int, bool) {
	sched.Yield(sched.KPoint, siteCheck, int64(k))
	return y.inner.Check(k)
}
func (y *yieldStore) Store(k, v int) {
	sched.Yield(sched.KPoint, siteStore, int64(k))
	y.inner.Store(k, v)
}
func (y *yieldStore) Remove(k int) {
	sched.Yield(sched.KPoint, siteRemove, int64(k))
	y.inner.Remove(k)
}
func (y *yieldStore) Evict() (int, int) {
	sched.Yield(sched.KPoint, siteEvict, 0)
	return y.inner.Evict()
}

// cacheEnv is the environment a cache under test is built in.
type cacheEnv struct {
	limit  int64
	sized  bool
	yields bool // wrap the store, and yield in sizeOf / onEvict
	// cbs[tid] collects the callbacks that run on thread tid (each slice is
	// touched by its own thread only).
	cbs [][]KV
	// cur reports the calling thread.
	cur func() int
	// Fault: the panicAt-th invocation (1-based, counted over sizeOf and onEvict
	// together) panics with injectedPanic; 0 = never. Counted across threads,
	// so touched only in norace helpers.
	panicAt int64
	calls   int64
	fired   bool
	// uptime > 0: the store's logical clock is advanced by that much before
	// the first call, as if the cache had already served that many accesses.
	uptime int64
	// noCallback: build the cache without OnEvict (callbacks cannot be observed
	// then, everything else still is). defaultSize: do not call WithSize (only
	// meaningful for unit sizes).
	noCallback  bool
	defaultSize bool
	// sizeLast: call OnEvict before WithSize when building the Config (the
	// options are documented as independent of their order).
	sizeLast bool
	// noWrap: do not wrap the store (C09): an implementation may look at the
	// store's concrete type or optional methods, which a wrapper would hide.
	noWrap bool
}

// injectedPanic is the value a faulty user callback panics with.
type injectedPanic struct{}

func (injectedPanic) String() string { return "injected callback panic" }

//go:norace
func (e *cacheEnv) tick() bool {
	if e.panicAt == 0 {
		return false
	}
	e.calls++
	if e.calls == e.panicAt {
		e.fired = true
		return true
	}
	return false
}

//go:norace
func (e *cacheEnv) faultFired() bool { return e.fired }

func (e *cacheEnv) sizeOf(v int) int64 {
	if e.yields {
		sched.Yield(sched.KPoint, siteSizeOf, int64(v))
	}
	if e.tick() {
		panic(injectedPanic{})
	}
	return sizeOfValue(e.sized, v)
}

func (e *cacheEnv) onEvict(k, v int) {
	if e.yields {
		sched.Yield(sched.KPoint, siteCallback, int64(k)<<32|int64(uint32(v)))
	}
	if e.tick() {
		panic(injectedPanic{})
	}
	t := e.cur()
	e.cbs[t] = append(e.cbs[t], KV{k, v})
}

// cacheMaker builds a cache in an environment.
type cacheMaker func(e *cacheEnv) cacheAPI

func makeReal(e *cacheEnv) cacheAPI {
	cfg := cache.LRU[int, int]()
	withSize := !(e.defaultSize && !e.sized)
	if withSize && !e.sizeLast {
		cfg = cfg.WithSize(e.sizeOf)
	}
	if !e.noCallback {
		cfg = cfg.OnEvict(e.onEvict)
	}
	if withSize && e.sizeLast {
		cfg = cfg.WithSize(e.sizeOf)
	}
	if e.uptime > 0 {
		cache.VerifAdvanceClock(cfg, e.uptime)
	}
	if e.yields && !e.noWrap {
		cfg = cache.VerifWrapStore(cfg, func(s cache.Store[int, int]) cache.Store[int, int] { return &yieldStore{s} })
	}
	return cache.New(e.limit, cfg)
}

func makeTwin(e *cacheEnv) cacheAPI {
	cfg := cachefix.LRU[int, int]()
	withSize := !(e.defaultSize && !e.sized)
	if withSize && !e.sizeLast {
		cfg = cfg.WithSize(e.sizeOf)
	}
	if !e.noCallback {
		cfg = cfg.OnEvict(e.onEvict)
	}
	if withSize && e.sizeLast {
		cfg = cfg.WithSize(e.sizeOf)
	}
	if e.uptime > 0 {
		cachefix.VerifAdvanceClock(cfg, e.uptime)
	}
	if e.yields && !e.noWrap {
		cfg = cachefix.VerifWrapStore(cfg, func(s cachefix.Store[int, int]) cachefix.Store[int, int] { return &yieldStore{s} })
	}
	return cachefix.New(e.limit, cfg)
}

// TwinAvailable reports whether the overlay could build the patched twin.
func TwinAvailable() bool { return simsync.TwinPatched }

// execOp performs op on c as thread tid and returns the observation.
func execOp(c cacheAPI, e *cacheEnv, tid int, op Op) (ob Obs) {
	e.cbs[tid] = e.cbs[tid][:0]
	defer func() {
		ob.CBs = append([]KV(nil), e.cbs[tid]...)
	}()
	switch op.Kind {
	case OpPut:
		ob.OK = c.Put(op.K, op.V)
	case OpGet:
		ob.V, ob.OK = c.Get(op.K)
	case OpHas:
		ob.OK = c.Has(op.K)
	case OpRemove:
		ob.OK = c.Remove(op.K)
	case OpClear:
		c.Clear()
	case OpLen:
		ob.N = int64(c.Len())
	case OpSize:
		ob.N = c.Size()
	default:
		panic(fmt.Sprintf("bad op %d", op.Kind))
	}
	return ob
}
