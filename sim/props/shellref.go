package props

// Independent reference for the shell package (DESIGN.md 4.3, 4.4), written from
// the text of POSIX.1-2013 Shell Command Language 2.2 (Quoting) and the
// package's documented separators (space, tab, newline) as a hand-written
// recursive-descent reader. It shares nothing with the package's table.

// Reference "states", used only to measure which situations the generated
// inputs reach (probe coverage), never by the oracle itself.
const (
	rsBetween   = iota // between words
	rsBetweenBS        // between words, after a backslash
	rsWord             // in an unquoted part of a word
	rsWordBS           // in a word, after a backslash
	rsSingle           // inside single quotes
	rsDouble           // inside double quotes
	rsDoubleBS         // inside double quotes, after a backslash
	numRefStates
)

var refStateNames = [...]string{"between", "between+bs", "word", "word+bs", "single", "double", "double+bs"}

// Character classes of the tokenizer's language.
const (
	rcOther = iota
	rcBlank
	rcNewline
	rcBackslash
	rcSingle
	rcDouble
	numRefClasses
)

var refClassNames = [...]string{"other", "blank", "newline", "backslash", "single-quote", "double-quote"}

func refClass(c byte) int {
	switch c {
	case ' ', '\t':
		return rcBlank
	case '\n':
		return rcNewline
	case '\\':
		return rcBackslash
	case '\'':
		return rcSingle
	case '"':
		return rcDouble
	}
	return rcOther
}

// refToken is one word of the reference tokenization.
type refToken struct {
	Text string
	// End is the index just past the token's source text; Next is the index at
	// which the following token's text starts (len(input) if none). A Rest
	// taken after this token must return input[p:] for some End <= p <= Next.
	End, Next int
	// Complete: no unterminated quotation or dangling backslash.
	Complete bool
	// NewlineSep: the token was ended by (or followed, before the next token,
	// by) an unquoted newline - a command separator in a real shell.
	NewlineSep bool
}

type refResult struct {
	Tokens   []refToken
	Complete bool // completeness of the final token (true if there are none)
	// First is the index at which the first token starts (len(input) if none).
	First int
	// UnquotedNewline: some newline acted as a separator.
	UnquotedNewline bool
	// visited[state][class] counts, and consecutive pairs, for probes.
	visits [][2]int
}

func isSep(c byte) bool { return c == ' ' || c == '\t' || c == '\n' }

// refTokenize splits in by the POSIX quoting rules.
func refTokenize(in string) refResult {
	var res refResult
	res.Complete = true
	n := len(in)
	pos := 0
	visit := func(state int, c byte) { res.visits = append(res.visits, [2]int{state, refClass(c)}) }

	skip := func() {
		for pos < n {
			c := in[pos]
			if isSep(c) {
				if c == '\n' {
					res.UnquotedNewline = true
					if k := len(res.Tokens); k > 0 {
						res.Tokens[k-1].NewlineSep = true
					}
				}
				visit(rsBetween, c)
				pos++
				continue
			}
			// A backslash-newline pair is a line continuation: it vanishes.
			if c == '\\' && pos+1 < n && in[pos+1] == '\n' {
				visit(rsBetween, c)
				visit(rsBetweenBS, '\n')
				pos += 2
				continue
			}
			return
		}
	}

	skip()
	res.First = pos
	for pos < n {
		// A word starts here.
		var text []byte
		complete := true
		startState := rsBetween
		end := -1
		endedByNewline := false
	word:
		for pos < n {
			c := in[pos]
			st := rsWord
			if startState == rsBetween {
				st, startState = rsBetween, rsWord
			}
			switch {
			case isSep(c):
				visit(st, c)
				end = pos
				endedByNewline = c == '\n'
				pos++ // the separator that ends the word
				break word
			case c == '\\':
				visit(st, c)
				bsState := rsWordBS
				if st == rsBetween {
					bsState = rsBetweenBS
				}
				if pos+1 == n {
					complete = false // dangling backslash
					pos++
					break word
				}
				visit(bsState, in[pos+1])
				if in[pos+1] != '\n' {
					text = append(text, in[pos+1])
				}
				pos += 2
			case c == '\'':
				visit(st, c)
				pos++
				closed := false
				for pos < n {
					d := in[pos]
					visit(rsSingle, d)
					pos++
					if d == '\'' {
						closed = true
						break
					}
					text = append(text, d)
				}
				if !closed {
					complete = false
					break word
				}
			case c == '"':
				visit(st, c)
				pos++
				closed := false
			dq:
				for pos < n {
					d := in[pos]
					switch d {
					case '"':
						visit(rsDouble, d)
						pos++
						closed = true
						break dq
					case '\\':
						visit(rsDouble, d)
						if pos+1 == n {
							pos++
							break dq // dangling backslash inside the quotes
						}
						e := in[pos+1]
						visit(rsDoubleBS, e)
						switch e {
						case '"', '\\':
							text = append(text, e)
						case '\n':
							// continuation: vanishes
						default:
							// Inside double quotes a backslash before any other
							// character is an ordinary character. (POSIX also
							// lists $ and ` here; inputs never contain those
							// after a backslash inside double quotes, see
							// DESIGN.md 4.4 "deliberately not demanded".)
							text = append(text, '\\', e)
						}
						pos += 2
					default:
						visit(rsDouble, d)
						text = append(text, d)
						pos++
					}
				}
				if !closed {
					complete = false
					break word
				}
			default:
				visit(st, c)
				text = append(text, c)
				pos++
			}
		}
		if end < 0 {
			end = pos
		}
		tok := refToken{Text: string(text), End: end, Complete: complete, NewlineSep: endedByNewline}
		if endedByNewline {
			res.UnquotedNewline = true
		}
		res.Tokens = append(res.Tokens, tok)
		res.Complete = complete
		skip()
		res.Tokens[len(res.Tokens)-1].Next = pos
	}
	return res
}

// posixSpecial are the characters POSIX 2.2 says must ("shall") or may need to
// be quoted to represent themselves.
const posixSpecial = "|&;<>()$`\\\"' \t\n" + "*?[#~=%"

func isPosixSpecial(c byte) bool {
	for i := 0; i < len(posixSpecial); i++ {
		if posixSpecial[i] == c {
			return true
		}
	}
	return false
}

// refUnquote reads q as one shell word per POSIX 2.2.1-2.2.3 and returns the
// string a shell would obtain, the first special character found outside any
// quoting (0 if none), and whether the quoting was well formed.
func refUnquote(q string) (val string, unquoted byte, ok bool) {
	var out []byte
	i, n := 0, len(q)
	for i < n {
		c := q[i]
		switch c {
		case '\\':
			if i+1 == n {
				return string(out), 0, false
			}
			if q[i+1] != '\n' { // backslash-newline vanishes
				out = append(out, q[i+1])
			}
			i += 2
		case '\'':
			j := i + 1
			for j < n && q[j] != '\'' {
				j++
			}
			if j == n {
				return string(out), 0, false
			}
			out = append(out, q[i+1:j]...)
			i = j + 1
		case '"':
			j := i + 1
			closed := false
			for j < n {
				d := q[j]
				if d == '"' {
					closed = true
					j++
					break
				}
				if d == '$' || d == '`' {
					// expansion inside double quotes: special and unquoted
					if unquoted == 0 {
						unquoted = d
					}
				}
				if d == '\\' && j+1 < n {
					switch q[j+1] {
					case '$', '`', '"', '\\':
						out = append(out, q[j+1])
					case '\n':
					default:
						out = append(out, '\\', q[j+1])
					}
					j += 2
					continue
				}
				out = append(out, d)
				j++
			}
			if !closed {
				return string(out), unquoted, false
			}
			i = j
		default:
			if isPosixSpecial(c) && unquoted == 0 {
				unquoted = c
			}
			out = append(out, c)
			i++
		}
	}
	return string(out), unquoted, true
}
