package props

import (
	"fmt"
	"os"

	"verifsim/chooser"
	"verifsim/sched"
)

// C08: the cache under a single client - the zero-contention configuration of
// the C09 simulation (DESIGN.md 4.1). Every operation is checked against the
// reference LRU as it happens.

var c08Limits = []int{1, 2, 3, 4, 5, 6, 7, 8, 9, 10, 12, 16, 24, 32, 48, 64}
var c08Lens = []int{20, 50, 100, 200, 400}
var c08Weights = []int{0, 1, 2, 4, 8}
var c08PresentPct = []int{0, 25, 50, 75, 90}

type c08Config struct {
	Profile    string `json:"profile"`
	Limit      int    `json:"limit"`
	Sized      bool   `json:"sized"`
	Keys       int    `json:"keys"`
	Ops        int    `json:"ops"`
	Weights    []int  `json:"op_weights"`
	PresentPct int    `json:"present_pct"`
	PutNewPct  int    `json:"put_new_key_pct"`
	// Uptime: accesses the store is assumed to have served before this history
	// (its logical clock starts there): long-lived caches are part of "every history".
	Uptime     int64 `json:"simulated_earlier_accesses"`
	SweepEvery int   `json:"sweep_every"`
	// Optional settings of cache.Config left out in some runs.
	NoCallback  bool `json:"no_eviction_callback"`
	DefaultSize bool `json:"default_size_function"`
	SizeLast    bool `json:"with_size_called_after_on_evict"`
}

// forceDeep (experiments only, VERIF_C08_DEEP=1) makes every non-churn run a deep run.
var forceDeep = os.Getenv("VERIF_C08_DEEP") != ""

func drawC08Config(ch chooser.Chooser) c08Config {
	var c c08Config
	if ch.Draw(2, "profile") == 1 && !forceDeep {
		// Churn: a cache kept full by a key space slightly larger than the
		// limit, mostly Put/Get with some Remove - evictions on most Puts and
		// the recency structure stirred by removals in between.
		c.Profile = "churn"
		c.Limit = c08Limits[4+ch.Draw(len(c08Limits)-4, "limit")]
		c.Sized = ch.Draw(4, "sized") == 3
		c.Keys = c.Limit + 1 + ch.Draw(6, "keys")
		c.Ops = c08Lens[1+ch.Draw(len(c08Lens)-1, "nops")]
		c.Weights = []int{4, 4, 1, 1 + ch.Draw(3, "w.Remove"), 0, 1, 1}
		c.PresentPct = c08PresentPct[ch.Draw(3, "present")]
		c.PutNewPct = []int{0, 30, 60}[ch.Draw(3, "putnew")]
		c.SweepEvery = []int{1, 4, 16}[ch.Draw(3, "sweep")]
		return c
	}
	if ch.Draw(3, "deep?") == 2 || forceDeep {
		// Deep: a large cache kept full for a long time, many Gets and some
		// Removes - the recency heap is four to six levels deep and constantly
		// rearranged from its interior.
		c.Profile = "deep"
		c.Limit = c08Limits[11+ch.Draw(len(c08Limits)-11, "limit")]
		c.Sized = false
		c.Keys = c.Limit + 1 + ch.Draw(8, "keys")
		c.Ops = c08Lens[3+ch.Draw(2, "nops")]
		c.Weights = []int{4, 6, 1, 1 + ch.Draw(3, "w.Remove"), 0, 0, 0}
		c.PresentPct = c08PresentPct[1+ch.Draw(3, "present")]
		c.PutNewPct = []int{40, 60, 80}[ch.Draw(3, "putnew")]
		c.SweepEvery = 16
		return c
	}
	c.Profile = "free"
	c.Limit = c08Limits[ch.Draw(len(c08Limits), "limit")]
	c.Sized = ch.Draw(2, "sized") == 1
	c.Keys = 2 + ch.Draw(39, "keys")
	c.Ops = c08Lens[ch.Draw(len(c08Lens), "nops")]
	c.Weights = make([]int, numOpKinds)
	for i := range c.Weights {
		c.Weights[i] = c08Weights[ch.Draw(len(c08Weights), "w."+opNames[i])]
	}
	if c.Weights[OpPut] == 0 {
		c.Weights[OpPut] = 1
	}
	// Clear empties the cache; keep it rare so that runs build up state.
	if c.Weights[OpClear] > 1 {
		c.Weights[OpClear] = 1
	}
	c.PresentPct = c08PresentPct[ch.Draw(len(c08PresentPct), "present")]
	c.SweepEvery = []int{1, 4, 16}[ch.Draw(3, "sweep")]
	return c
}

// drawPutSize picks the size of the next Put in sized mode.
func drawPutSize(ch chooser.Chooser, limit int64, cur int64) int {
	maxSize := limit + 2
	if maxSize > 255 {
		maxSize = 255
	}
	switch weighted(ch, []int{4, 2, 2, 2, 1, 1}, "szclass") {
	case 0: // small
		return 1 + ch.Draw(int(min64(maxSize, 4)), "sz")
	case 1: // zero-size value
		return 0
	case 2: // anything up to too-big
		return ch.Draw(int(maxSize)+1, "sz")
	case 3: // exactly the room that is left (or 1)
		if r := limit - cur; r > 0 && r <= 255 {
			return int(r)
		}
		return 1
	case 4: // exactly the limit
		if limit <= 255 {
			return int(limit)
		}
		return 255
	default: // too big
		if limit+1 <= 255 {
			return int(limit + 1)
		}
		return 255
	}
}

func min64(a, b int64) int64 {
	if a < b {
		return a
	}
	return b
}

// drawOp draws the next operation. seq makes every written value unique.
func drawOp(ch chooser.Chooser, m *lruModel, weights []int, keys, presentPct, putNewPct, seq int) Op {
	op := Op{Kind: weighted(ch, weights, "op")}
	if op.Kind == OpPut && putNewPct > 0 && len(m.ents) < keys && ch.Draw(100, "newkey?") < putNewPct {
		// a key that is not in the cache: the i-th absent one
		i := ch.Draw(keys-len(m.ents), "akey")
		for k := 0; k < keys; k++ {
			if m.find(k) < 0 {
				if i == 0 {
					op.K = k
					break
				}
				i--
			}
		}
		op.V = seq
		if m.sized {
			op.V = seq<<8 | drawPutSize(ch, m.limit, m.size())
		}
		return op
	}
	switch op.Kind {
	case OpPut, OpGet, OpHas, OpRemove:
		if n := len(m.ents); n > 0 && presentPct > 0 && ch.Draw(100, "present?") < presentPct {
			op.K = m.ents[ch.Draw(n, "pkey")].k
		} else {
			op.K = ch.Draw(keys, "key")
		}
	}
	if op.Kind == OpPut {
		if m.sized {
			op.V = seq<<8 | drawPutSize(ch, m.limit, m.size())
		} else {
			op.V = seq
		}
	}
	return op
}

type c08Step struct {
	Op  string `json:"op"`
	Obs string `json:"observed"`
}

// runC08 executes one sequential history on the cache built by mk.
func runC08(ch chooser.Chooser, st *Stats, mk cacheMaker) *Outcome {
	sched.Progress()
	cfg := drawC08Config(ch)
	if ch.Draw(6, "uptime?") == 5 {
		// just below 2^31, 2^32 and 2^62 (minus a little, so that the boundary
		// is crossed during the history)
		base := []int64{1 << 31, 1 << 32, 1 << 62}[ch.Draw(3, "uptime")]
		cfg.Uptime = base - int64(1+ch.Draw(300, "uptimeoff"))
	}
	// Configuration swarm: the optional settings of cache.Config are optional.
	cfg.NoCallback = ch.Draw(5, "nocallback") == 4
	cfg.DefaultSize = ch.Draw(3, "defaultsize") == 2
	cfg.SizeLast = ch.Draw(2, "sizelast") == 1
	env := &cacheEnv{limit: int64(cfg.Limit), sized: cfg.Sized, cbs: make([][]KV, 1), cur: func() int { return 0 }, uptime: cfg.Uptime,
		noCallback: cfg.NoCallback, defaultSize: cfg.DefaultSize, sizeLast: cfg.SizeLast}
	var c cacheAPI
	if p := safely(func() { c = mk(env) }); p != "" {
		return &Outcome{Violation: &Violation{"panic", "constructing the cache panicked: " + p}}
	}
	m := &lruModel{limit: env.limit, sized: env.sized}
	out := &Outcome{}
	var steps []c08Step
	h := newHasher()
	evictions := 0
	lastRemoved := -1
	fail := func(class, detail string, i int) *Outcome {
		out.Violation = &Violation{class, fmt.Sprintf("after %d operations: %s", i, detail)}
		out.Hash = h.sum()
		out.Steps = i
		out.Nontrivial = evictions > 0
		out.Trace = func() any { return map[string]any{"config": cfg, "history": steps} }
		return out
	}
	for i := 0; i < cfg.Ops; i++ {
		op := drawOp(ch, m, cfg.Weights, cfg.Keys, cfg.PresentPct, cfg.PutNewPct, i+1)
		before := m.clone()
		ex := m.step(op)
		var ob Obs
		if p := safely(func() { ob = execOp(c, env, 0, op) }); p != "" {
			steps = append(steps, c08Step{op.String(), "panic: " + p})
			return fail("panic", fmt.Sprintf("%v panicked: %s", op, p), i+1)
		}
		steps = append(steps, c08Step{op.String(), ob.String()})
		h.str(op.String())
		h.str(ob.String())
		if cfg.NoCallback {
			// no callback installed: what it would have been told is unobservable
			ex.victims, ex.replaced, ex.anyOrder = nil, nil, nil
			if op.Kind == OpClear {
				ex.anyOrder = []KV{}
			}
		}
		if class, d := ex.match(op, ob); class != "" {
			return fail(class, d+fmt.Sprintf(" [reference state before the call, least recent first: %s limit=%d]", before.encode(), m.limit), i+1)
		}
		// Probes.
		switch op.Kind {
		case OpPut:
			if !ex.ok {
				st.Inc("probe:put_refused_too_big", 1)
				if before.find(op.K) >= 0 {
					st.Inc("probe:put_refused_on_present_key", 1)
				}
			}
			if len(ex.victims) > 0 {
				evictions++
				st.Inc("probe:put_evicts", 1)
			}
			if len(ex.victims) > 1 {
				st.Inc("probe:put_evicts_several", 1)
			}
			if ex.replaced != nil {
				st.Inc("probe:put_replaces", 1)
				if len(ex.victims) > 0 {
					st.Inc("probe:put_replaces_and_evicts", 1)
				}
			}
			if ex.ok && sizeOfValue(m.sized, op.V) == 0 && m.sized {
				st.Inc("probe:zero_size_entry_stored", 1)
			}
			if lastRemoved >= 0 {
				st.Inc("probe:put_after_remove", 1)
			}
		case OpGet:
			if ex.ok {
				st.Inc("probe:get_hit", 1)
				if lastRemoved >= 0 {
					st.Inc("probe:get_hit_after_remove", 1)
				}
			} else {
				st.Inc("probe:get_miss", 1)
			}
		case OpRemove:
			if ex.ok {
				st.Inc("probe:remove_hit", 1)
				if i := before.find(op.K); i > 0 && i < len(before.ents)-1 {
					st.Inc("probe:remove_interior_of_recency_order", 1)
				}
			}
		case OpClear:
			if len(ex.anyOrder) > 0 {
				st.Inc("probe:clear_nonempty", 1)
			}
		}
		if op.Kind == OpRemove && ex.ok {
			lastRemoved = op.K
		} else if op.Kind != OpHas && op.Kind != OpLen && op.Kind != OpSize {
			lastRemoved = -1
		}
		// Accounting after every operation (none of these is a use).
		var n int
		var sz int64
		if p := safely(func() { n, sz = c.Len(), c.Size() }); p != "" {
			return fail("panic", "Len/Size panicked: "+p, i+1)
		}
		if n != len(m.ents) {
			return fail("len-mismatch", fmt.Sprintf("after %v Len()=%d, reference holds %d entries [%s]", op, n, len(m.ents), m.encode()), i+1)
		}
		if sz > m.limit {
			return fail("size-over-limit", fmt.Sprintf("after %v Size()=%d exceeds limit %d", op, sz, m.limit), i+1)
		}
		if sz != m.size() {
			return fail("size-mismatch", fmt.Sprintf("after %v Size()=%d, reference says %d [%s]", op, sz, m.size(), m.encode()), i+1)
		}
		if (i+1)%cfg.SweepEvery == 0 {
			for k := 0; k < cfg.Keys; k++ {
				var has bool
				if p := safely(func() { has = c.Has(k) }); p != "" {
					return fail("panic", fmt.Sprintf("Has(%d) panicked: %s", k, p), i+1)
				}
				if has != (m.find(k) >= 0) {
					return fail("content-mismatch", fmt.Sprintf("after %v Has(%d)=%v, reference says %v [%s]", op, k, has, !has, m.encode()), i+1)
				}
			}
		}
	}
	if cfg.Uptime > 0 {
		st.Inc("fault:long_uptime_clock_near_2^31_2^32_2^62", 1)
	}
	if cfg.NoCallback {
		st.Inc("probe:cache_without_eviction_callback", 1)
	}
	st.Max("max:entries_held", int64(m.maxLen))
	if m.maxLen >= 7 {
		st.Inc("probe:held_7_or_more_entries", 1)
	}
	if m.maxLen >= 15 {
		st.Inc("probe:held_15_or_more_entries", 1)
	}
	out.Hash = h.sum()
	out.Steps = cfg.Ops
	out.Nontrivial = evictions > 0
	out.Trace = func() any {
		s := steps
		if len(s) > 24 {
			s = s[:24]
		}
		return map[string]any{"config": cfg, "history_prefix": s, "operations": len(steps)}
	}
	return out
}

// withTwin runs f on the real packages and, if that fails, re-executes the
// very same choices on the differential twin to tell known finding KF1 from
// anything else (DESIGN.md 5.2).
func withTwin(ch chooser.Chooser, st *Stats, run func(chooser.Chooser, *Stats, cacheMaker) *Outcome) *Outcome {
	out := run(ch, st, makeReal)
	if out.Violation == nil || !TwinAvailable() || !kf1Classes[out.Violation.Class] || !KnownActive["KF1"] {
		return out
	}
	rec := append([]chooser.Choice(nil), ch.Record()...)
	var twin *Outcome
	func() {
		defer func() {
			switch r := recover().(type) {
			case nil:
			case chooser.Exhausted:
				// The twin got past the point where the real run failed.
				twin = &Outcome{}
			case chooser.Diverged:
				// The twin asked different questions: no attribution possible,
				// the violation stands.
				twin = &Outcome{Violation: &Violation{"twin-diverged", r.Msg}}
			default:
				panic(r)
			}
		}()
		twin = run(chooser.NewList(rec, true), nil, makeTwin)
	}()
	if twin.Violation == nil {
		out.Known = "KF1"
		out.KnownDetail = out.Violation.String()
		out.Violation = nil
	}
	return out
}

// KnownActive lists the findings that known_findings.json currently records
// with status "known" (set by the worker from VERIF_KNOWN). A failure is put to
// the differential twin only for a finding listed here; for a finding that has
// been fixed (or was never listed) every failure is a violation.
var KnownActive = map[string]bool{}

// kf1Classes are the violation classes a wrong eviction victim can produce.
// Anything else (a data race, a deadlock, a panic, broken accounting) is never
// put to the twin: KF1 cannot explain it.
var kf1Classes = map[string]bool{"wrong-result": true, "callback-mismatch": true, "content-mismatch": true, "not-linearizable": true}

func init() {
	register(&Property{
		ID:  "C08",
		Run: func(ch chooser.Chooser, st *Stats) *Outcome { return withTwin(ch, st, runC08) },
		Rule: "one run = one sequential history (20-400 calls, drawn mix of Put/Get/Has/Remove/Clear/Len/Size, limit 1-64, unit or per-value sizes 0..limit+2, 2-40 keys) executed on the real cache and checked call by call against a reference LRU; " +
			"a run is non-trivial if at least one Put evicted an entry; distinct = distinct fingerprints of (calls, observed results, callbacks)",
		Real:      []string{"cache.Cache", "cache.lruStore", "heapq.Queue"},
		Simulated: []string{"none (single client; this is the zero-contention configuration of the C09 simulation)"},
		RequiredProbes: []string{"probe:put_evicts", "probe:put_evicts_several", "probe:put_replaces_and_evicts", "probe:put_refused_too_big",
			"probe:put_refused_on_present_key", "probe:zero_size_entry_stored", "probe:get_hit_after_remove", "probe:remove_interior_of_recency_order",
			"probe:clear_nonempty", "probe:held_7_or_more_entries", "probe:held_15_or_more_entries"},
	})
}
