package props

import (
	"fmt"
	"os"
	"sort"
	"time"

	"github.com/anishathalye/porcupine"
	"github.com/creachadair/mds/verifsim/simsync"
	"verifsim/chooser"
	"verifsim/sched"
)

// C09: the cache under 2-4 simulated client threads (DESIGN.md 4.2). The
// scheduler decides the interleaving at every lock operation, store call, size
// call and eviction callback; the recorded history is checked for data races
// (race detector, with hand-offs it cannot see), linearizability against the
// C08 reference (porcupine), the size bound, exactly-once eviction reporting
// and absence of deadlock.

type c09Config struct {
	Threads    int   `json:"threads"`
	Keys       int   `json:"keys"`
	Limit      int   `json:"limit"`
	Sized      bool  `json:"sized"`
	OpsPer     []int `json:"ops_per_thread"`
	Prefill    int   `json:"prefill"`
	StayWeight int   `json:"stay_weight"`
	Weights    []int `json:"op_weights"`
	// PanicAt > 0: the PanicAt-th invocation of a user-supplied function (size
	// function or eviction callback) panics; the calling thread recovers and
	// carries on with its next call (fault injection, see the oracle's
	// relaxation).
	PanicAt int `json:"callback_panics_at"`
	// NoWrap: the store is not wrapped (yield points are then the lock
	// operations, the size function and the callback only).
	// Bystander: a second, independent cache is used by the same threads in
	// between their calls on the first (its results are not judged; two caches
	// must not share anything, which the race detector and the first cache's
	// oracles would notice).
	Bystander bool `json:"second_cache_in_use"`
	NoWrap    bool `json:"store_not_wrapped"`
	SizeLast  bool `json:"with_size_called_after_on_evict"`
}

var c09Stay = []int{0, 1, 3, 10, 50}

func drawC09Config(ch chooser.Chooser) c09Config {
	var c c09Config
	c.Threads = 2 + ch.Draw(3, "threads")
	c.Keys = 2 + ch.Draw(3, "keys")
	c.Limit = 1 + ch.Draw(4, "limit")
	if ch.Draw(4, "big") == 3 {
		// A larger cache: the recency heap is three levels deep while threads
		// interleave (the sequential check covers deeper ones).
		c.Keys = 6 + ch.Draw(7, "bkeys")
		c.Limit = 5 + ch.Draw(4, "blimit")
	}
	c.Sized = ch.Draw(3, "sized") == 2
	maxOps := 6
	if c.Threads == 4 {
		maxOps = 5
	}
	for i := 0; i < c.Threads; i++ {
		c.OpsPer = append(c.OpsPer, 1+ch.Draw(maxOps, "nops"))
	}
	c.Prefill = ch.Draw(c.Limit+2, "prefill")
	c.StayWeight = c09Stay[ch.Draw(len(c09Stay), "stay")]
	c.Weights = make([]int, numOpKinds)
	for i := range c.Weights {
		c.Weights[i] = []int{1, 0, 2, 4}[ch.Draw(4, "w."+opNames[i])]
	}
	if c.Weights[OpPut] == 0 {
		c.Weights[OpPut] = 2
	}
	if c.Weights[OpClear] > 1 {
		c.Weights[OpClear] = 1
	}
	c.Bystander = ch.Draw(4, "bystander") == 3
	c.NoWrap = ch.Draw(3, "nowrap") == 2
	c.SizeLast = ch.Draw(2, "sizelast") == 1
	if ch.Draw(8, "cbpanic?") == 7 {
		c.PanicAt = 1 + ch.Draw(12, "cbpanicat")
	}
	return c
}

func drawC09Op(ch chooser.Chooser, c *c09Config, seq int) Op {
	op := Op{Kind: weighted(ch, c.Weights, "op")}
	switch op.Kind {
	case OpPut, OpGet, OpHas, OpRemove:
		op.K = ch.Draw(c.Keys, "key")
	}
	if op.Kind == OpPut {
		op.V = seq
		if c.Sized {
			// sizes 0..limit+1, biased to 1
			sz := 1
			if ch.Draw(2, "sz?") == 1 {
				sz = ch.Draw(c.Limit+2, "sz")
			}
			op.V = seq<<8 | sz
		}
	}
	return op
}

// histOp is one call of the recorded history.
type histOp struct {
	Tid       int    `json:"thread"`
	Op        Op     `json:"-"`
	OpS       string `json:"op"`
	Ob        Obs    `json:"-"`
	ObS       string `json:"observed"`
	Call      int64  `json:"invoke_stamp"`
	Ret       int64  `json:"return_stamp"`
	Panic     string `json:"panic,omitempty"`
	completed bool
}

// lruState is the porcupine model state: the recency list, least recent first.
type lruState string

func encodeState(m *lruModel) lruState {
	b := make([]byte, 0, len(m.ents)*9)
	for _, e := range m.ents {
		b = append(b, byte(e.k), byte(e.v), byte(e.v>>8), byte(e.v>>16), byte(e.v>>24))
	}
	return lruState(b)
}

func decodeState(limit int64, sized bool, s lruState) *lruModel {
	m := &lruModel{limit: limit, sized: sized, ents: make([]lruEntry, 0, len(s)/5+1)}
	for i := 0; i+5 <= len(s); i += 5 {
		v := int(s[i+1]) | int(s[i+2])<<8 | int(s[i+3])<<16 | int(s[i+4])<<24
		m.ents = append(m.ents, lruEntry{int(s[i]), v, sizeOfValue(sized, v)})
	}
	return m
}

func lruPorcupineModel(limit int64, sized bool) porcupine.Model {
	return porcupine.Model{
		Init: func() interface{} { return lruState("") },
		Step: func(state, input, output interface{}) (bool, interface{}) {
			m := decodeState(limit, sized, state.(lruState))
			op := input.(Op)
			ex := m.step(op)
			if class, _ := ex.match(op, output.(Obs)); class != "" {
				return false, state
			}
			return true, encodeState(m)
		},
		DescribeOperation: func(input, output interface{}) string {
			return fmt.Sprintf("%v -> %v", input.(Op), output.(Obs))
		},
	}
}

var raceLogOffset int64

// raceLogTail returns what the race detector wrote since the last call.
func raceLogTail() string {
	path := os.Getenv("VERIF_RACELOG")
	if path == "" {
		return ""
	}
	path = fmt.Sprintf("%s.%d", path, os.Getpid())
	f, err := os.Open(path)
	if err != nil {
		return ""
	}
	defer f.Close()
	fi, err := f.Stat()
	if err != nil {
		return ""
	}
	n := fi.Size() - raceLogOffset
	if n <= 0 {
		return ""
	}
	if n > 16<<10 {
		n = 16 << 10
	}
	buf := make([]byte, n)
	f.ReadAt(buf, raceLogOffset)
	raceLogOffset = fi.Size()
	return string(buf)
}

func runC09(ch chooser.Chooser, st *Stats, mk cacheMaker) *Outcome {
	cfg := drawC09Config(ch)
	// Operations are drawn before the run: they do not depend on the schedule.
	ops := make([][]Op, cfg.Threads)
	for t := range ops {
		for i := 0; i < cfg.OpsPer[t]; i++ {
			ops[t] = append(ops[t], drawC09Op(ch, &cfg, 1+t*8+i))
		}
	}
	var prefill []Op
	for i := 0; i < cfg.Prefill; i++ {
		v := 100 + i
		if cfg.Sized {
			v = v<<8 | 1
		}
		prefill = append(prefill, Op{Kind: OpPut, K: ch.Draw(cfg.Keys, "pkey"), V: v})
	}

	main := cfg.Threads // pseudo thread id of the scheduler goroutine
	env := &cacheEnv{limit: int64(cfg.Limit), sized: cfg.Sized, yields: true, cbs: make([][]KV, cfg.Threads+1), noWrap: cfg.NoWrap, sizeLast: cfg.SizeLast}
	env.cur = func() int { return main }
	out := &Outcome{}
	var hist []histOp
	trace := func() any {
		for i := range hist {
			hist[i].OpS, hist[i].ObS = hist[i].Op.String(), hist[i].Ob.String()
		}
		return map[string]any{"config": cfg, "history": hist, "schedule": out.schedule}
	}
	out.Trace = trace
	fail := func(class, detail string) *Outcome {
		out.Violation = &Violation{class, detail}
		return out
	}

	var c cacheAPI
	if p := safely(func() { c = mk(env) }); p != "" {
		return fail("panic", "constructing the cache panicked: "+p)
	}
	stamp := int64(-2 * (len(prefill) + 1))
	for _, op := range prefill {
		h := histOp{Tid: main, Op: op, Call: stamp, Ret: stamp + 1, completed: true}
		if p := safely(func() { h.Ob = execOp(c, env, main, op) }); p != "" {
			h.Panic = p
			hist = append(hist, h)
			return fail("panic", fmt.Sprintf("%v panicked: %s", op, p))
		}
		hist = append(hist, h)
		stamp += 2
	}

	// The bystander cache and what each thread does to it.
	var c2 cacheAPI
	var env2 *cacheEnv
	ops2 := make([][]Op, cfg.Threads)
	if cfg.Bystander {
		env2 = &cacheEnv{limit: 2, yields: true, noWrap: true, cbs: make([][]KV, cfg.Threads+1), cur: sched.CurrentTid}
		if p := safely(func() { c2 = mk(env2) }); p != "" {
			return fail("panic", "constructing a second cache panicked: "+p)
		}
		for t := range ops2 {
			for i := 0; i < cfg.OpsPer[t]; i++ {
				op := Op{Kind: []int{OpPut, OpGet, OpPut, OpRemove}[ch.Draw(4, "op2")], K: ch.Draw(3, "key2"), V: 1000 + t*8 + i}
				ops2[t] = append(ops2[t], op)
			}
		}
		st.Inc("probe:second_cache_in_use", 1)
	}

	// Per-thread observation slots: written by their own thread, read after the join.
	obs := make([][]Obs, cfg.Threads)
	pan := make([][]string, cfg.Threads)
	for t := range obs {
		obs[t] = make([]Obs, len(ops[t]))
		pan[t] = make([]string, len(ops[t]))
	}
	env.cur = sched.CurrentTid
	// The fault is armed only for the concurrent phase (the prefill is plain).
	env.panicAt = int64(cfg.PanicAt)
	bodies := make([]func(int), cfg.Threads)
	for t := range bodies {
		bodies[t] = func(tid int) {
			for i, op := range ops[tid] {
				if c2 != nil {
					if p := threadSafely(func() { execOp(c2, env2, tid, ops2[tid][i]) }); p != "" {
						pan[tid][i] = "second cache: " + p
						return
					}
				}
				sched.Yield(sched.KInvoke, int64(i), int64(op.Kind)<<48|int64(op.K)<<32|int64(uint32(op.V)))
				var ob Obs
				p := threadSafely(func() { ob = execOp(c, env, tid, op) })
				obs[tid][i] = ob
				pan[tid][i] = p
				var r int64
				if ob.OK {
					r = 1
				}
				sched.Yield(sched.KReturn, int64(i), r<<62|int64(ob.V)<<20^ob.N<<8^int64(len(ob.CBs)))
				if p != "" && p != injectedPanicText {
					return
				}
			}
		}
	}
	res := sched.Run(ch, sched.Config{StayWeight: cfg.StayWeight, MaxSteps: 4000}, bodies)
	env.cur = func() int { return main }
	out.Hash = res.Hash
	out.Steps = res.Steps
	out.Detached = res.Detached
	out.schedule = scheduleOf(res)

	// Assemble the history from the event log.
	type key struct{ tid, i int }
	calls := map[key]int64{}
	rets := map[key]int64{}
	for _, e := range res.Events {
		switch e.Kind {
		case sched.KInvoke:
			if e.Grant >= 0 {
				calls[key{e.Tid, int(e.A)}] = int64(2 * e.Grant)
			}
		case sched.KReturn:
			rets[key{e.Tid, int(e.A)}] = int64(2*e.Step + 1)
		}
	}
	overlap := false
	var firstPanic string
	for t := 0; t < cfg.Threads; t++ {
		for i, op := range ops[t] {
			cl, started := calls[key{t, i}]
			rt, finished := rets[key{t, i}]
			if !started {
				if pan[t][i] != "" && firstPanic == "" {
					firstPanic = fmt.Sprintf("thread %d: %s", t, pan[t][i])
				}
				continue
			}
			h := histOp{Tid: t, Op: op, Ob: obs[t][i], Call: cl, Ret: rt, Panic: pan[t][i], completed: finished}
			if !finished {
				h.Ret = 1 << 40 // pending for ever (deadlock / overrun)
			}
			if h.Panic != "" && firstPanic == "" {
				firstPanic = fmt.Sprintf("thread %d: %v panicked: %s", t, op, h.Panic)
			}
			hist = append(hist, h)
		}
	}
	sort.SliceStable(hist, func(i, j int) bool { return hist[i].Call < hist[j].Call })
	for i := range hist {
		for j := i + 1; j < len(hist); j++ {
			if hist[j].Call < hist[i].Ret && hist[i].Tid != hist[j].Tid {
				overlap = true
			}
		}
	}
	out.Nontrivial = overlap
	if overlap {
		st.Inc("probe:overlapping_calls", 1)
	}
	if res.Contended > 0 {
		st.Inc("probe:lock_contention_seen", 1)
	}
	st.Inc("sched:threads_detached", int64(res.Detached))
	st.Inc("sched:context_switches", int64(res.Switches))
	st.Inc("fault:preemptive_context_switch_at_a_yield_point", int64(res.Switches))
	st.Inc("fault:steps_with_a_thread_blocked_on_a_lock", int64(res.Contended))
	st.Inc("sched:steps_with_a_blocked_thread", int64(res.Contended))

	faulted := env.faultFired()
	env.panicAt = 0
	if faulted {
		st.Inc("fault:user_callback_panicked", 1)
	}
	// Oracle 5: every call returns.
	if res.Deadlock {
		return fail("deadlock", "no simulated thread can run and some have not finished: "+res.DeadInfo)
	}
	if res.Overrun {
		return fail("no-progress", fmt.Sprintf("run exceeded %d scheduler steps", res.Steps))
	}
	for _, p := range res.Panics {
		return fail("panic", fmt.Sprintf("thread %d panicked outside a call: %s", p.Tid, p.Value))
	}
	if firstPanic != "" && !faulted {
		return fail("panic", firstPanic)
	}
	// Oracle 1: no data race.
	if res.Races > 0 {
		return fail("data-race", fmt.Sprintf("%d race detector report(s) during the run\n%s", res.Races, raceLogTail()))
	}

	if faulted {
		// A user function panicked in the middle of a call. The cache promises
		// nothing about its contents after that (its bookkeeping may be
		// half-updated, later calls may even panic), so results are not judged
		// in this run - relaxed narrowly: the lock must still have been released
		// (no thread may hang: checked above) and nothing may race (checked
		// above). Runs without this fault are judged in full.
		return out
	}
	// Final read-back on this goroutine (ordered after the join).
	stamp = int64(2*res.Steps + 10)
	readback := []Op{{Kind: OpLen}, {Kind: OpSize}}
	for k := 0; k < cfg.Keys; k++ {
		readback = append(readback, Op{Kind: OpHas, K: k}, Op{Kind: OpGet, K: k})
	}
	final := map[KV]bool{}
	for _, op := range readback {
		h := histOp{Tid: main, Op: op, Call: stamp, Ret: stamp + 1, completed: true}
		if p := safely(func() { h.Ob = execOp(c, env, main, op) }); p != "" {
			h.Panic = p
			hist = append(hist, h)
			return fail("panic", fmt.Sprintf("%v panicked after the run: %s", op, p))
		}
		if op.Kind == OpGet && h.Ob.OK {
			final[KV{op.K, h.Ob.V}] = true
		}
		hist = append(hist, h)
		stamp += 2
	}

	// Oracle 3: Size never exceeds the limit at any observation.
	for _, h := range hist {
		if h.Op.Kind == OpSize && h.Ob.N > int64(cfg.Limit) {
			return fail("size-over-limit", fmt.Sprintf("thread %d observed Size()=%d with limit %d", h.Tid, h.Ob.N, cfg.Limit))
		}
	}

	// Oracle 4: every entry that left the cache was reported exactly once.
	put := map[KV]int{}
	cbs := map[KV]int{}
	for _, h := range hist {
		if h.Op.Kind == OpPut && h.Ob.OK {
			put[KV{h.Op.K, h.Op.V}]++
		}
		for _, cb := range h.Ob.CBs {
			cbs[cb]++
		}
	}
	var kvs []KV
	for kv := range put {
		kvs = append(kvs, kv)
	}
	for kv := range cbs {
		if put[kv] == 0 {
			kvs = append(kvs, kv)
		}
	}
	sort.Slice(kvs, func(i, j int) bool {
		if kvs[i].K != kvs[j].K {
			return kvs[i].K < kvs[j].K
		}
		return kvs[i].V < kvs[j].V
	})
	for _, kv := range kvs {
		want := put[kv]
		if final[kv] {
			want--
		}
		if cbs[kv] != want {
			return fail("eviction-report-count", fmt.Sprintf("entry %v: stored %d time(s), present at the end: %v, reported to the eviction callback %d time(s) (want %d)", kv, put[kv], final[kv], cbs[kv], want))
		}
	}

	// Oracle 2: linearizability against the reference LRU.
	if os.Getenv("VERIF_NOPORC") != "" {
		return out
	}
	pops := make([]porcupine.Operation, 0, len(hist))
	for _, h := range hist {
		pops = append(pops, porcupine.Operation{ClientId: h.Tid, Input: h.Op, Call: h.Call, Output: h.Ob, Return: h.Ret})
	}
	switch porcupine.CheckOperationsTimeout(lruPorcupineModel(int64(cfg.Limit), cfg.Sized), pops, 10*time.Second) {
	case porcupine.Illegal:
		return fail("not-linearizable", "no sequential order of the calls that respects their real-time order explains the observed results and callbacks under the reference LRU")
	case porcupine.Unknown:
		st.Inc("porcupine:inconclusive", 1)
	default:
		st.Inc("porcupine:linearizable", 1)
	}
	return out
}

var injectedPanicText = fmt.Sprint(injectedPanic{})

// threadSafely is safely for code running on a simulated thread: the
// scheduler's kill signal must pass through.
func threadSafely(f func()) (p string) {
	defer func() {
		if r := recover(); r != nil {
			if sched.IsKill(r) {
				panic(r)
			}
			p = fmt.Sprint(r)
		}
	}()
	f()
	return ""
}

// scheduleOf renders the schedule: one line per scheduler step, naming the
// thread that was resumed, the yield point it was resumed from and the yield
// point at which it parked again ("unlocked" means the unlock has happened).
func scheduleOf(res *sched.Result) []string {
	from := make([]string, res.Steps+1)
	to := make([]string, res.Steps+1)
	who := make([]int, res.Steps+1)
	for _, e := range res.Events {
		if e.Grant >= 0 && e.Grant <= res.Steps {
			from[e.Grant] = kindName(e)
			who[e.Grant] = e.Tid
		}
		if e.Step >= 1 && e.Step <= res.Steps {
			to[e.Step] = kindName(e)
		}
	}
	var s []string
	for k := 1; k <= res.Steps; k++ {
		if to[k] == "" || from[k] == to[k] {
			s = append(s, fmt.Sprintf("step %d: t%d: %s", k, who[k], from[k]))
			continue
		}
		s = append(s, fmt.Sprintf("step %d: t%d runs from %s to %s", k, who[k], from[k], to[k]))
	}
	return s
}

func kindName(e sched.Event) string {
	switch e.Kind {
	case simsync.KLock:
		return fmt.Sprintf("lock(m%d)", e.Obj)
	case simsync.KUnlock:
		return fmt.Sprintf("unlocked(m%d)", e.Obj)
	case simsync.KRLock:
		return fmt.Sprintf("rlock(m%d)", e.Obj)
	case simsync.KRUnlock:
		return fmt.Sprintf("runlocked(m%d)", e.Obj)
	case simsync.KTryLock:
		return fmt.Sprintf("trylock(m%d)=%d", e.Obj, e.A)
	case simsync.KPoolGet:
		return fmt.Sprintf("poolget(p%d,have=%d)->%d", e.Obj, e.A, e.B)
	case simsync.KPoolPut:
		return fmt.Sprintf("poolput(p%d)->keep=%d", e.Obj, e.B)
	case simsync.KAtomic:
		return fmt.Sprintf("atomic(a%d)", e.Obj)
	case simsync.KCondEnq:
		return fmt.Sprintf("cond(c%d).Wait: queued", e.Obj)
	case simsync.KCondWait:
		return fmt.Sprintf("cond(c%d).Wait: waiting", e.Obj)
	case simsync.KCondSignal:
		return fmt.Sprintf("cond(c%d).Signal", e.Obj)
	case simsync.KCondBroadcast:
		return fmt.Sprintf("cond(c%d).Broadcast", e.Obj)
	case sched.KDetach:
		return "no answer: detached (blocked outside the simulator's primitives, spinning, or slow)"
	case sched.KAnnounce:
		return fmt.Sprintf("lock(m%d) called: pending, readers hold it", e.Obj)
	case sched.KStart:
		return "start"
	case sched.KDone:
		return "end"
	case sched.KInvoke:
		return fmt.Sprintf("invoke#%d", e.A)
	case sched.KReturn:
		return fmt.Sprintf("return#%d", e.A)
	case sched.KPoint:
		return fmt.Sprintf("point(%s)", siteName(int(e.A)))
	}
	return fmt.Sprintf("kind%d", e.Kind)
}

func siteName(s int) string {
	names := map[int]string{siteCheck: "store.Check", siteAccess: "store.Access", siteStore: "store.Store", siteRemove: "store.Remove",
		siteEvict: "store.Evict", siteSizeOf: "sizeOf", siteCallback: "onEvict"}
	if n, ok := names[s]; ok {
		return n
	}
	return fmt.Sprint(s)
}

func init() {
	register(&Property{
		ID:  "C09",
		Run: func(ch chooser.Chooser, st *Stats) *Outcome { return withTwin(ch, st, runC09) },
		Rule: "one run = 2-4 simulated client threads issuing 1-6 calls each (drawn mix of Put/Get/Has/Remove/Clear/Len/Size) on one cache with 2-4 keys and limit 1-4, after a drawn sequential prefill; " +
			"the scheduler picks the next thread at every lock/unlock, store call, size call and eviction callback; a run is non-trivial if two calls of different threads overlapped in simulated time; " +
			"distinct = distinct fingerprints of the whole event log (schedule, calls, results)",
		Real:           []string{"cache.Cache", "cache.lruStore", "heapq.Queue", "sync.Mutex (inside simsync.Mutex, so the race detector sees the true acquire/release edges)"},
		Simulated:      []string{"goroutine scheduling (seeded scheduler, one runnable thread at a time, hand-off by raw pipe syscalls invisible to the race detector)", "blocking on the cache mutex (simsync.Mutex)"},
		RequiredProbes: []string{"probe:overlapping_calls", "probe:lock_contention_seen", "porcupine:linearizable", "fault:user_callback_panicked"},
	})
}
