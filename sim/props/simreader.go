package props

import (
	"errors"
	"fmt"
	"io"

	"verifsim/chooser"
	"verifsim/sched"
)

// simReader is the simulated byte stream handed to shell.Scanner: the
// simulator decides how every Read is answered.
//
// Faults (each counted when it fires): short reads of any size, (0, nil)
// reads, data together with io.EOF, an injected error at a drawn offset
// (delivered with or after the bytes before it; persisting or followed by more
// data), and an early io.EOF followed by more data on later calls.

// Read plans are drawn up front (per reader), so the thread executing Read makes
// no draws: the plan is a list of segments consumed in order.
type readSeg struct {
	N      int   // bytes to deliver (0 = empty read)
	Err    error // error to return with this segment (nil, io.EOF, injected)
	Repeat bool  // keep returning Err on every later call
}

var errInjected = errors.New("injected read error")

type simReader struct {
	data  []byte
	pos   int
	plan  []readSeg
	next  int
	calls int
	// stuck: the error to keep returning
	stuck error
	st    *Stats
	log   []string
	site  int64
	// reloaded: the object served an earlier session before this one.
	reloaded bool
}

type readerFaults struct {
	Frag     int // 0 whole, 1 one byte at a time, 2 random chunks
	EmptyPct int // chance of an empty read before a chunk (at most 3 in a row)
	EOFWith  bool
	ErrAt    int // offset of an injected error (-1 none)
	ErrWith  bool
	ErrStays bool
	EarlyEOF int // offset of an early EOF followed by more data (-1 none)
}

func (f readerFaults) String() string {
	return fmt.Sprintf("{frag=%d empty%%=%d eofWithData=%v errAt=%d errWithData=%v errStays=%v earlyEOF=%d}", f.Frag, f.EmptyPct, f.EOFWith, f.ErrAt, f.ErrWith, f.ErrStays, f.EarlyEOF)
}

// drawReaderFaults draws the delivery policy for one input. withErrors enables
// the failing kinds (injected error, early EOF).
func drawReaderFaults(ch chooser.Chooser, n int, withErrors bool) readerFaults {
	f := readerFaults{ErrAt: -1, EarlyEOF: -1}
	f.Frag = ch.Draw(3, "frag")
	f.EmptyPct = []int{0, 10, 40}[ch.Draw(3, "empty")]
	f.EOFWith = ch.Draw(2, "eofwith") == 1
	if withErrors {
		switch ch.Draw(4, "errkind") {
		case 1, 2:
			f.ErrAt = ch.Draw(n+1, "errat")
			f.ErrWith = ch.Draw(2, "errwith") == 1
			f.ErrStays = ch.Draw(2, "errstays") == 1
		case 3:
			f.EarlyEOF = ch.Draw(n+1, "earlyeof")
		}
	}
	return f
}

// newSimReader builds the reader and its complete plan from the choice stream.
func newSimReader(ch chooser.Chooser, data string, f readerFaults, st *Stats) *simReader {
	r := &simReader{data: []byte(data), st: st}
	n := len(data)
	empties := 0
	// chunks appends segments delivering data[from:to] according to the
	// fragmentation policy, with empty reads sprinkled in between.
	chunks := func(from, to int) {
		pos := from
		for pos < to {
			if f.EmptyPct > 0 && empties < 3 && ch.Draw(100, "empty?") < f.EmptyPct {
				r.plan = append(r.plan, readSeg{N: 0})
				empties++
				continue
			}
			empties = 0
			left := to - pos
			k := left
			switch f.Frag {
			case 1:
				k = 1
			case 2:
				if left > 1 {
					k = 1 + ch.Draw(left, "chunk")
				}
			}
			r.plan = append(r.plan, readSeg{N: k})
			pos += k
		}
	}
	// attach puts err on the last data segment, if there is one that follows
	// the given plan length; otherwise it appends a segment of its own.
	attach := func(since int, with bool, err error, repeat bool) {
		if k := len(r.plan); with && k > since && r.plan[k-1].N > 0 {
			r.plan[k-1].Err, r.plan[k-1].Repeat = err, repeat
			return
		}
		r.plan = append(r.plan, readSeg{N: 0, Err: err, Repeat: repeat})
	}
	finish := func(from int) {
		since := len(r.plan)
		chunks(from, n)
		if f.EOFWith {
			attach(since, true, io.EOF, false)
		}
		// otherwise the plan simply runs out and Read answers (0, io.EOF)
	}
	switch {
	case f.ErrAt >= 0:
		chunks(0, f.ErrAt)
		attach(0, f.ErrWith, errInjected, f.ErrStays)
		if !f.ErrStays {
			finish(f.ErrAt)
		}
	case f.EarlyEOF >= 0:
		chunks(0, f.EarlyEOF)
		r.plan = append(r.plan, readSeg{N: 0, Err: io.EOF})
		finish(f.EarlyEOF)
	default:
		finish(0)
	}
	return r
}

// reload makes r deliver what src was built to deliver: the reader object is
// re-used for a new input, as a caller does with strings.Reader.Reset.
func (r *simReader) reload(src *simReader) {
	r.data, r.pos, r.plan, r.next, r.calls, r.stuck = src.data, 0, src.plan, 0, 0, nil
	r.reloaded = true
}

// Read implements io.Reader. Every call is a preemption point.
func (r *simReader) Read(p []byte) (int, error) {
	sched.Yield(sched.KPoint, siteRead, int64(r.calls))
	r.calls++
	if len(p) == 0 {
		return 0, nil
	}
	if r.stuck != nil {
		return 0, r.stuck
	}
	if r.next >= len(r.plan) {
		// plan exhausted: the stream has ended
		return 0, io.EOF
	}
	seg := &r.plan[r.next]
	k := seg.N
	if k > len(p) {
		// the caller's buffer is smaller than the planned chunk: deliver what
		// fits and keep the rest of the segment for the next call
		copy(p, r.data[r.pos:r.pos+len(p)])
		r.pos += len(p)
		seg.N -= len(p)
		return len(p), nil
	}
	copy(p, r.data[r.pos:r.pos+k])
	r.pos += k
	r.next++
	if seg.Repeat {
		r.stuck = seg.Err
	}
	return k, seg.Err
}

const siteRead = 20

// planStats counts the fault kinds a plan contains (they fire when consumed;
// plans are consumed completely unless the scanner stops early, so this is
// counted at consumption time by countFired).
func (r *simReader) countFired(st *Stats) {
	countFiredSegs(st, r.plan[:minInt(r.next, len(r.plan))], len(r.plan), len(r.data))
}

// used returns a copy of the part of the plan consumed so far.
func (r *simReader) used() []readSeg {
	return append([]readSeg(nil), r.plan[:minInt(r.next, len(r.plan))]...)
}

func countFiredSegs(st *Stats, segs []readSeg, planLen, dataLen int) {
	for i, seg := range segs {
		switch {
		case seg.N == 0 && seg.Err == nil:
			st.Inc("fault:empty_read", 1)
		case seg.Err == io.EOF && seg.N > 0:
			st.Inc("fault:data_with_eof", 1)
		case seg.Err == io.EOF && i < planLen-1:
			st.Inc("fault:early_eof_then_more_data", 1)
		case seg.Err == errInjected && seg.N > 0:
			st.Inc("fault:error_with_data", 1)
		case seg.Err == errInjected:
			st.Inc("fault:error_alone", 1)
		case seg.N > 0 && seg.N < dataLen:
			st.Inc("fault:short_read", 1)
		}
	}
}
