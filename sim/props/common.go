package props

import (
	"fmt"
	"sort"

	"verifsim/chooser"
)

// Violation is a property violation found in one run.
type Violation struct {
	Class  string `json:"class"`  // stable tag: the shrinker only keeps candidates with the same class
	Detail string `json:"detail"` // human readable: expected vs observed
}

func (v *Violation) String() string { return v.Class + ": " + v.Detail }

// Outcome is the result of one simulated run.
type Outcome struct {
	Violation *Violation
	// Known is the id of a listed known finding this run reproduced (the run
	// failed on the real packages and passed on the differential twin).
	Known string
	// KnownDetail describes how the known finding manifested.
	KnownDetail string
	// Hash is the fingerprint of the run's event log.
	Hash uint64
	// Nontrivial: the run exercised the property's interesting region (rule
	// stated per property in the evidence).
	Nontrivial bool
	// Detached: threads the scheduler had to detach during the run (part of the
	// interleaving was then decided by the real scheduler).
	Detached int
	// Steps is the amount of simulated activity (scheduler steps / operations).
	Steps int
	// Trace is a decoded, human-readable description of the run.
	Trace func() any

	schedule []string
}

// Stats accumulates counters over a batch of runs (one worker process).
type Stats struct {
	Counters map[string]int64
	Hashes   map[uint64]struct{} // all runs
	Seq      []uint64            // fingerprints in run order (determinism self-test), if KeepSeq
	KeepSeq  bool
	NTHashes map[uint64]struct{} // non-trivial runs
	Samples  []any
	MaxSamp  int
	Frozen   bool // set once a failure is being shrunk: later runs are not evidence
}

func NewStats() *Stats {
	return &Stats{Counters: map[string]int64{}, Hashes: map[uint64]struct{}{}, NTHashes: map[uint64]struct{}{}, MaxSamp: 3}
}

// Inc adds n to a counter (fault kinds fired, probes hit, ...).
func (s *Stats) Inc(name string, n int64) {
	if s == nil || s.Frozen {
		return
	}
	s.Counters[name] += n
}

// Max raises a high-water-mark counter.
func (s *Stats) Max(name string, v int64) {
	if s == nil || s.Frozen {
		return
	}
	if s.Counters[name] < v {
		s.Counters[name] = v
	}
}

func (s *Stats) Record(o *Outcome) {
	if s == nil || s.Frozen {
		return
	}
	s.Counters["runs"]++
	s.Counters["steps"] += int64(o.Steps)
	s.Hashes[o.Hash] = struct{}{}
	if s.KeepSeq {
		s.Seq = append(s.Seq, o.Hash)
	}
	if o.Nontrivial {
		s.Counters["runs_nontrivial"]++
		s.NTHashes[o.Hash] = struct{}{}
	}
	if o.Known != "" {
		s.Counters["known:"+o.Known]++
	}
	if len(s.Samples) < s.MaxSamp && o.Trace != nil && o.Nontrivial {
		s.Samples = append(s.Samples, o.Trace())
	}
}

// Property is one simulated check.
type Property struct {
	ID string
	// Run executes one run, drawing every decision from ch. It must be a pure
	// function of the choices and the code under test.
	Run func(ch chooser.Chooser, st *Stats) *Outcome
	// Rule describes how runs are generated and which count as non-trivial.
	Rule string
	// Components lists what ran as real code and what was simulated.
	Real, Simulated []string
	// RequiredProbes must all be non-zero at the end of a thorough batch.
	RequiredProbes []string
	// Finish, if set, runs once after the batch; an error is harness trouble
	// (exit 2), never a violation.
	Finish func(st *Stats) error
}

// Registry of properties by id (and sub-configuration).
var Registry = map[string]*Property{}

func register(p *Property) { Registry[p.ID] = p }

// PropertyIDs lists the registered ids, sorted.
func PropertyIDs() []string {
	var ids []string
	for id := range Registry {
		ids = append(ids, id)
	}
	sort.Strings(ids)
	return ids
}

// weighted draws an index with the given weights (all >= 0, sum > 0).
func weighted(ch chooser.Chooser, w []int, label string) int {
	sum := 0
	for _, x := range w {
		sum += x
	}
	v := ch.Draw(sum, label)
	for i, x := range w {
		if v < x {
			return i
		}
		v -= x
	}
	panic("weighted: unreachable")
}

// safely runs f and returns a description of the panic that escaped it, if any.
func safely(f func()) (p string) {
	defer func() {
		if r := recover(); r != nil {
			switch r.(type) {
			case chooser.Diverged, chooser.Exhausted:
				panic(r)
			}
			p = fmt.Sprint(r)
		}
	}()
	f()
	return ""
}

// hasher is an FNV-1a accumulator for run fingerprints.
type hasher struct{ h uint64 }

func newHasher() *hasher { return &hasher{14695981039346656037} }

func (h *hasher) str(s string) {
	for i := 0; i < len(s); i++ {
		h.h ^= uint64(s[i])
		h.h *= 1099511628211
	}
	h.h ^= 0xff
	h.h *= 1099511628211
}

func (h *hasher) u64(v uint64) {
	for i := 0; i < 8; i++ {
		h.h ^= v & 0xff
		h.h *= 1099511628211
		v >>= 8
	}
}

func (h *hasher) sum() uint64 { return h.h }
