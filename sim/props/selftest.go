package props

import (
	"fmt"
	"time"

	"github.com/creachadair/mds/verifsim/simsync"
	"verifsim/chooser"
	"verifsim/sched"
)

// Canaries (DESIGN.md 7.2): the race detector must stay sighted (an unlocked
// shared counter incremented by two simulated threads is reported although the
// threads never overlap in real time) and quiet (the same under a simulator
// mutex is not reported, nor is anything in the harness itself).

type canaryState struct {
	mu simsync.Mutex
	rw simsync.RWMutex
	n  int
}

func canaryRun(ch chooser.Chooser, mode int) *sched.Result {
	st := new(canaryState)
	body := func(tid int) {
		for i := 0; i < 3; i++ {
			switch mode {
			case 0: // unlocked
				sched.Yield(sched.KPoint, 0, 0)
				st.n++
			case 1: // mutex
				st.mu.Lock()
				st.n++
				sched.Yield(sched.KPoint, 0, 0)
				st.mu.Unlock()
			case 2: // rwmutex write lock
				st.rw.Lock()
				st.n++
				st.rw.Unlock()
			case 3: // rwmutex read lock around a write: must be flagged
				st.rw.RLock()
				st.n++
				sched.Yield(sched.KPoint, 0, 0)
				st.rw.RUnlock()
			}
		}
	}
	return sched.Run(ch, sched.Config{}, []func(int){body, body, body})
}

// seqChooser is a tiny deterministic chooser for the self test.
type seqChooser struct{ x uint64 }

func (s *seqChooser) next() uint64 {
	s.x ^= s.x << 13
	s.x ^= s.x >> 7
	s.x ^= s.x << 17
	return s.x
}
func (s *seqChooser) Draw(n int, label string) int { return int(s.next() % uint64(n)) }
func (s *seqChooser) Word(label string) uint64     { return s.next() }
func (s *seqChooser) Record() []chooser.Choice     { return nil }

// SelfTest runs the canaries.
func SelfTest() error {
	if !sched.RaceEnabled {
		return fmt.Errorf("binary was not built with -race")
	}
	const runs = 200
	ch := &seqChooser{x: 88172645463325252}
	want := []bool{true, false, false, true}
	for mode, w := range want {
		flagged := 0
		for i := 0; i < runs; i++ {
			r := canaryRun(ch, mode)
			if r.Deadlock || len(r.Panics) > 0 {
				return fmt.Errorf("canary mode %d: deadlock=%v panics=%v", mode, r.Deadlock, r.Panics)
			}
			if r.Races > 0 {
				flagged++
			}
		}
		if w && flagged != runs {
			return fmt.Errorf("race detector is blind: canary mode %d flagged in %d of %d runs (want all)", mode, flagged, runs)
		}
		if !w && flagged != 0 {
			return fmt.Errorf("harness races: canary mode %d flagged in %d of %d runs (want none)", mode, flagged, runs)
		}
	}
	// RWMutex writer preference: a goroutine that read-locks recursively
	// deadlocks with a writer arriving in between (as with sync.RWMutex), in
	// some schedules and not in all.
	dl := 0
	for i := 0; i < runs; i++ {
		var rw simsync.RWMutex
		r := sched.Run(ch, sched.Config{}, []func(int){
			func(int) { rw.RLock(); rw.RLock(); rw.RUnlock(); rw.RUnlock() },
			func(int) { rw.Lock(); rw.Unlock() },
		})
		if r.Deadlock {
			dl++
		}
	}
	if dl == 0 || dl == runs {
		return fmt.Errorf("rwmutex canary: recursive read lock deadlocked with a writer in %d of %d runs (want some, not all)", dl, runs)
	}
	// Cond canary: a producer/consumer pair over a simulated Cond finishes in
	// every schedule and is race-free; with the Signal removed it deadlocks.
	for mode := 0; mode < 2; mode++ {
		bad := 0
		for i := 0; i < runs; i++ {
			var mu simsync.Mutex
			cv := simsync.NewCond(&mu)
			ready, val := false, 0
			r := sched.Run(ch, sched.Config{}, []func(int){
				func(int) {
					mu.Lock()
					for !ready {
						cv.Wait()
					}
					val++
					mu.Unlock()
				},
				func(int) {
					mu.Lock()
					ready = true
					val++
					mu.Unlock()
					if mode == 0 {
						cv.Signal()
					}
				},
			})
			if mode == 0 && (r.Deadlock || r.Races > 0 || len(r.Panics) > 0) {
				bad++
			}
			if mode == 1 && r.Deadlock {
				bad++
			}
		}
		if mode == 0 && bad != 0 {
			return fmt.Errorf("cond canary: correct producer/consumer failed in %d of %d runs", bad, runs)
		}
		if mode == 1 && bad == 0 {
			return fmt.Errorf("cond canary: a missing Signal never deadlocked in %d runs", runs)
		}
	}
	// Detach canary: a lock the simulator does not own (a one-slot channel)
	// around a counter, with a yield point inside the critical section. The
	// thread that blocks on the channel for real is detached, the holder runs
	// on, and the run finishes: no deadlock, no race report.
	old := sched.DetachAfter
	sched.DetachAfter = 30 * time.Millisecond
	for i := 0; i < 3; i++ {
		sem := make(chan struct{}, 1)
		n := 0
		body := func(int) {
			for k := 0; k < 2; k++ {
				sem <- struct{}{}
				n++
				sched.Yield(sched.KPoint, 0, 0)
				<-sem
			}
		}
		r := sched.Run(ch, sched.Config{StayWeight: 0}, []func(int){body, body})
		if r.Deadlock || r.Races > 0 || len(r.Panics) > 0 || n != 4 {
			sched.DetachAfter = old
			return fmt.Errorf("detach canary: deadlock=%v races=%d panics=%v n=%d (want a clean finish)", r.Deadlock, r.Races, r.Panics, n)
		}
	}
	sched.DetachAfter = old
	if sched.Tainted != 0 {
		return fmt.Errorf("detach canary left %d abandoned threads", sched.Tainted)
	}
	// Pool canaries: objects passed through a simulated pool carry the
	// Put-before-Get edge (proper use is never reported) and nothing more (a
	// write after Put is reported when another thread received the object).
	type pobj struct{ n int }
	for mode := 0; mode < 2; mode++ {
		flagged := 0
		for i := 0; i < runs; i++ {
			pool := &simsync.Pool{New: func() any { return new(pobj) }}
			body := func(int) {
				for k := 0; k < 3; k++ {
					x := pool.Get().(*pobj)
					x.n++
					pool.Put(x)
					if mode == 1 {
						x.n++ // use after Put
					}
				}
			}
			r := sched.Run(ch, sched.Config{}, []func(int){body, body, body})
			if r.Deadlock || len(r.Panics) > 0 {
				return fmt.Errorf("pool canary mode %d: deadlock=%v panics=%v", mode, r.Deadlock, r.Panics)
			}
			if r.Races > 0 {
				flagged++
			}
		}
		if mode == 0 && flagged != 0 {
			return fmt.Errorf("harness races: proper use of the simulated pool flagged in %d of %d runs", flagged, runs)
		}
		if mode == 1 && flagged == 0 {
			return fmt.Errorf("race detector is blind: use after Put never flagged in %d runs", runs)
		}
	}
	// Deadlock detection canary: two threads take two mutexes in opposite order
	// under a schedule that interleaves them.
	dead := 0
	for i := 0; i < runs; i++ {
		var a, b simsync.Mutex
		r := sched.Run(ch, sched.Config{}, []func(int){
			func(int) { a.Lock(); b.Lock(); b.Unlock(); a.Unlock() },
			func(int) { b.Lock(); a.Lock(); a.Unlock(); b.Unlock() },
		})
		if r.Deadlock {
			dead++
		}
	}
	if dead == 0 || dead == runs {
		return fmt.Errorf("deadlock canary: %d of %d runs deadlocked (want some, not all)", dead, runs)
	}
	return nil
}
