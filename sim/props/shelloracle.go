package props

import (
	"bytes"
	"fmt"
	"os"
	"os/exec"
	"path/filepath"
	"strconv"
	"strings"
)

// Cross-check of the reference models against real shells (DESIGN.md 4.3, 4.4,
// 8). The implementation is compared with the references on every case; here a
// sample of the same cases is evaluated by dash (/bin/sh) and, if present, bash
// (brace expansion off, as it is not POSIX), and the *references* must agree
// with them. A disagreement means a reference is wrong: harness trouble (exit
// 2), never a violation.

// ShellCase is a fragment of shell source that expands to some words.
type ShellCase struct {
	Source string   // placed after "p " in the script
	Want   []string // the words the reference expects the shell to see
	What   string   // description for diagnostics
}

// shellCases collects distinct cases up to a cap.
type shellCases struct {
	seen  map[string]bool
	cases []ShellCase
}

func (sc *shellCases) add(st *Stats, c ShellCase) {
	if st == nil || st.Frozen || len(sc.cases) >= ShellOracleMax || sc.seen[c.Source] {
		return
	}
	if strings.IndexByte(c.Source, 0) >= 0 {
		return // a script cannot contain NUL
	}
	if sc.seen == nil {
		sc.seen = map[string]bool{}
	}
	sc.seen[c.Source] = true
	sc.cases = append(sc.cases, c)
}

// ShellOracleMax is the per-worker cap on cases sent to the shells (0 = off).
var ShellOracleMax = 0

var c15Shell, c16Shell shellCases

// shellSafeInput reports whether a tokenizer input may be shown to a real shell
// as the arguments of a command: complete, no unquoted newline, and nothing but
// letters, dashes, blanks, backslashes, quotes and newlines.
func shellSafeInput(in string, ref refResult) bool {
	if !ref.Complete || ref.UnquotedNewline {
		return false
	}
	for i := 0; i < len(in); i++ {
		switch in[i] {
		case 'a', 'b', '-', ' ', '\t', '\n', '\\', '\'', '"':
		default:
			return false
		}
	}
	// A trailing backslash-newline would join the next script line.
	if strings.HasSuffix(in, "\\\n") || strings.HasSuffix(in, "\\") {
		return false
	}
	return true
}

// runShells evaluates the cases with every available shell and returns the
// number of (case, shell) evaluations and the disagreements found.
func runShells(cases []ShellCase) (int, []string, error) {
	if len(cases) == 0 {
		return 0, nil, nil
	}
	dir, err := os.MkdirTemp("", "verif-sh-")
	if err != nil {
		return 0, nil, err
	}
	defer os.RemoveAll(dir)
	var script bytes.Buffer
	script.WriteString("p() { printf '%d\\0' $#; for a; do printf '%s\\0' \"$a\"; done; }\n")
	for _, c := range cases {
		script.WriteString("p ")
		script.WriteString(c.Source)
		script.WriteString("\n")
	}
	path := filepath.Join(dir, "cases.sh")
	if err := os.WriteFile(path, script.Bytes(), 0o644); err != nil {
		return 0, nil, err
	}
	type sh struct {
		name string
		argv []string
	}
	shells := []sh{{"dash", []string{"/bin/dash", path}}, {"bash", []string{"/bin/bash", "+B", "+H", path}}}
	evals := 0
	var bad []string
	for _, s := range shells {
		if _, err := os.Stat(s.argv[0]); err != nil {
			continue
		}
		cmd := exec.Command(s.argv[0], s.argv[1:]...)
		cmd.Env = []string{}
		cmd.Dir = dir
		var stdout, stderr bytes.Buffer
		cmd.Stdout, cmd.Stderr = &stdout, &stderr
		if err := cmd.Run(); err != nil {
			return evals, nil, fmt.Errorf("%s: %v: %s", s.name, err, firstN(stderr.String(), 400))
		}
		parts := strings.Split(stdout.String(), "\x00")
		i := 0
		for _, c := range cases {
			if i >= len(parts)-1 {
				return evals, nil, fmt.Errorf("%s: output ended early (after %d evaluations)", s.name, evals)
			}
			n, err := strconv.Atoi(parts[i])
			if err != nil || i+1+n > len(parts) {
				return evals, nil, fmt.Errorf("%s: cannot parse output at field %d (%q)", s.name, i, parts[i])
			}
			got := parts[i+1 : i+1+n]
			i += 1 + n
			evals++
			if !equalStrings(got, c.Want) {
				if len(bad) < 10 {
					bad = append(bad, fmt.Sprintf("%s reads %s as %q, the reference says %q", s.name, c.What, got, c.Want))
				}
			}
		}
	}
	return evals, bad, nil
}

func firstN(s string, n int) string {
	if len(s) > n {
		return s[:n]
	}
	return s
}

// finishShell runs the collected cases; used as Property.Finish.
func finishShell(sc *shellCases) func(st *Stats) error {
	return func(st *Stats) error {
		cases := sc.cases
		sc.cases, sc.seen = nil, nil
		evals, bad, err := runShells(cases)
		if err != nil {
			return fmt.Errorf("shell oracle could not run: %v", err)
		}
		st.Counters["shell_oracle:evaluations"] += int64(evals)
		st.Counters["shell_oracle:cases"] += int64(len(cases))
		if len(bad) > 0 {
			return fmt.Errorf("the reference model disagrees with a real shell (the reference is wrong, not the code under test):\n%s", strings.Join(bad, "\n"))
		}
		return nil
	}
}
