package props

import (
	"fmt"
	"sort"
	"strings"
)

// Reference LRU cache (DESIGN.md 4.1). Written from the property text, not from
// the implementation: a slice in recency order, least recently used first.

// Operation kinds.
const (
	OpPut = iota
	OpGet
	OpHas
	OpRemove
	OpClear
	OpLen
	OpSize
	numOpKinds
)

var opNames = [...]string{"Put", "Get", "Has", "Remove", "Clear", "Len", "Size"}

// Op is one cache call.
type Op struct {
	Kind int `json:"kind"`
	K    int `json:"k"`
	V    int `json:"v"`
}

func (o Op) String() string {
	switch o.Kind {
	case OpPut:
		return fmt.Sprintf("Put(%d,%d)", o.K, o.V)
	case OpGet, OpHas, OpRemove:
		return fmt.Sprintf("%s(%d)", opNames[o.Kind], o.K)
	}
	return opNames[o.Kind] + "()"
}

// KV is a key/value pair as seen by the eviction callback.
type KV struct{ K, V int }

// Obs is what a call was observed to do: its result and the callbacks that
// ran on the calling goroutine during the call, in order.
type Obs struct {
	OK  bool  // Put, Get, Has, Remove
	V   int   // Get
	N   int64 // Len, Size
	CBs []KV
}

func (o Obs) String() string {
	return fmt.Sprintf("{ok=%v v=%d n=%d cbs=%v}", o.OK, o.V, o.N, o.CBs)
}

type lruEntry struct {
	k, v int
	size int64
}

// lruModel is the reference. ents[0] is the least recently used entry.
type lruModel struct {
	limit  int64
	sized  bool // size of a value is its low byte; otherwise 1
	ents   []lruEntry
	maxLen int
}

func sizeOfValue(sized bool, v int) int64 {
	if !sized {
		return 1
	}
	return int64(v & 0xff)
}

func (m *lruModel) size() int64 {
	var s int64
	for _, e := range m.ents {
		s += e.size
	}
	return s
}

func (m *lruModel) find(k int) int {
	for i, e := range m.ents {
		if e.k == k {
			return i
		}
	}
	return -1
}

func (m *lruModel) clone() *lruModel {
	c := *m
	c.ents = append([]lruEntry(nil), m.ents...)
	return &c
}

// expect describes what the reference says a call must do.
type expect struct {
	ok       bool
	v        int
	n        int64
	victims  []KV // must be reported in exactly this order
	replaced *KV  // must be reported once, anywhere in the list
	anyOrder []KV // Clear: must be reported as a multiset
}

// step applies op to the model and returns the expectation.
func (m *lruModel) step(op Op) expect {
	var ex expect
	switch op.Kind {
	case OpPut:
		sz := sizeOfValue(m.sized, op.V)
		if sz > m.limit {
			return ex // refused, nothing changes
		}
		ex.ok = true
		if i := m.find(op.K); i >= 0 {
			ex.replaced = &KV{m.ents[i].k, m.ents[i].v}
			m.ents = append(m.ents[:i], m.ents[i+1:]...)
		}
		cur := m.size()
		for cur+sz > m.limit {
			e := m.ents[0]
			m.ents = m.ents[1:]
			ex.victims = append(ex.victims, KV{e.k, e.v})
			cur -= e.size
		}
		m.ents = append(m.ents, lruEntry{op.K, op.V, sz})
		if len(m.ents) > m.maxLen {
			m.maxLen = len(m.ents)
		}
	case OpGet:
		if i := m.find(op.K); i >= 0 {
			e := m.ents[i]
			m.ents = append(append(m.ents[:i:i], m.ents[i+1:]...), e)
			ex.ok, ex.v = true, e.v
		}
	case OpHas:
		ex.ok = m.find(op.K) >= 0
	case OpRemove:
		if i := m.find(op.K); i >= 0 {
			ex.ok = true
			ex.victims = []KV{{m.ents[i].k, m.ents[i].v}}
			m.ents = append(m.ents[:i:i], m.ents[i+1:]...)
		}
	case OpClear:
		for _, e := range m.ents {
			ex.anyOrder = append(ex.anyOrder, KV{e.k, e.v})
		}
		m.ents = nil
	case OpLen:
		ex.n = int64(len(m.ents))
	case OpSize:
		ex.n = m.size()
	}
	return ex
}

// match compares an observation with an expectation; it returns the violation
// class and a description, or "", "" if they agree.
func (ex expect) match(op Op, ob Obs) (string, string) {
	if d := ex.matchResult(op, ob); d != "" {
		return "wrong-result", d
	}
	if d := ex.matchCallbacks(op, ob); d != "" {
		return "callback-mismatch", d
	}
	return "", ""
}

func (ex expect) matchResult(op Op, ob Obs) string {
	switch op.Kind {
	case OpPut, OpHas, OpRemove:
		if ob.OK != ex.ok {
			return fmt.Sprintf("%v returned %v, reference says %v", op, ob.OK, ex.ok)
		}
	case OpGet:
		if ob.OK != ex.ok || (ex.ok && ob.V != ex.v) {
			return fmt.Sprintf("%v returned (%d,%v), reference says (%d,%v)", op, ob.V, ob.OK, ex.v, ex.ok)
		}
	case OpLen, OpSize:
		if ob.N != ex.n {
			return fmt.Sprintf("%v returned %d, reference says %d", op, ob.N, ex.n)
		}
	}
	return ""
}

func (ex expect) matchCallbacks(op Op, ob Obs) string {
	cbs := ob.CBs
	if ex.anyOrder != nil || op.Kind == OpClear {
		if !sameMultiset(cbs, ex.anyOrder) {
			return fmt.Sprintf("%v reported %v to the eviction callback, reference says (any order) %v", op, cbs, ex.anyOrder)
		}
		return ""
	}
	if ex.replaced != nil {
		idx := -1
		for i, c := range cbs {
			if c == *ex.replaced {
				idx = i
				break
			}
		}
		if idx < 0 {
			return fmt.Sprintf("%v did not report the replaced entry %v to the eviction callback (got %v)", op, *ex.replaced, cbs)
		}
		cbs = append(append([]KV(nil), cbs[:idx]...), cbs[idx+1:]...)
	}
	if len(cbs) != len(ex.victims) {
		return fmt.Sprintf("%v reported %v to the eviction callback, reference says victims %v replaced %v", op, ob.CBs, ex.victims, ex.replaced)
	}
	for i := range cbs {
		if cbs[i] != ex.victims[i] {
			return fmt.Sprintf("%v reported %v to the eviction callback, reference says victims %v replaced %v", op, ob.CBs, ex.victims, ex.replaced)
		}
	}
	return ""
}

func sameMultiset(a, b []KV) bool {
	if len(a) != len(b) {
		return false
	}
	x := append([]KV(nil), a...)
	y := append([]KV(nil), b...)
	less := func(s []KV) func(i, j int) bool {
		return func(i, j int) bool {
			if s[i].K != s[j].K {
				return s[i].K < s[j].K
			}
			return s[i].V < s[j].V
		}
	}
	sort.Slice(x, less(x))
	sort.Slice(y, less(y))
	for i := range x {
		if x[i] != y[i] {
			return false
		}
	}
	return true
}

// encode renders the state canonically (used as the porcupine model state).
func (m *lruModel) encode() string {
	var b strings.Builder
	for _, e := range m.ents {
		fmt.Fprintf(&b, "%d:%d;", e.k, e.v)
	}
	return b.String()
}

func decodeModel(limit int64, sized bool, s string) *lruModel {
	m := &lruModel{limit: limit, sized: sized}
	for _, part := range strings.Split(s, ";") {
		if part == "" {
			continue
		}
		var k, v int
		fmt.Sscanf(part, "%d:%d", &k, &v)
		m.ents = append(m.ents, lruEntry{k, v, sizeOfValue(sized, v)})
	}
	return m
}
