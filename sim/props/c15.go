package props

import (
	"fmt"
	"strings"

	"github.com/creachadair/mds/shell"
	"verifsim/chooser"
	"verifsim/sched"
)

// C15: Quote / Join / Split identities with the package's two process-global
// pools behind the simulator (DESIGN.md 4.3): which pooled buffer or scanner a
// call receives (fresh, the dirtiest one, the one another thread just
// returned), whether Put keeps it, and how 1-3 goroutines interleave at every
// pool operation are simulator choices; the race detector watches as in C09.

// Weighted alphabet: every POSIX special character, both quotes, backslash,
// blank, tab, newline, letters, a non-ASCII byte, NUL, some non-POSIX
// punctuation, and occasionally any byte.
var c15Alphabet = []byte("|&;<>()$`\\\"' \t\n*?[#~=%ab!{}^,:-]\x00\xc3\xa9")

func drawString(ch chooser.Chooser, maxLen int) string {
	if ch.Draw(48, "slong?") == 47 {
		// One long run straddling the 4096-byte read buffer Split's scanner uses.
		pre, post := drawShortString(ch, 4), drawShortString(ch, 4)
		n := 4080 + ch.Draw(40, "srun")
		f := c15Alphabet[ch.Draw(len(c15Alphabet), "sfill")]
		b := make([]byte, 0, n+8)
		b = append(b, pre...)
		for i := 0; i < n; i++ {
			b = append(b, f)
		}
		return string(append(b, post...))
	}
	if ch.Draw(8, "smed?") == 7 {
		// Medium: lengths around the thresholds of small fixed buffers (16, 32,
		// 64 bytes), and runs of adjacent single quotes.
		n := 9 + ch.Draw(72, "smedlen")
		if ch.Draw(3, "squotes") == 2 {
			b := []byte(drawShortString(ch, 3))
			for i := 2 + ch.Draw(30, "nquotes"); i > 0; i-- {
				b = append(b, '\'')
			}
			return string(append(b, drawShortString(ch, 3)...))
		}
		return drawShortString(ch, n)
	}
	return drawShortString(ch, maxLen)
}

func drawShortString(ch chooser.Chooser, maxLen int) string {
	n := ch.Draw(maxLen+1, "slen")
	b := make([]byte, n)
	for i := range b {
		k := ch.Draw(len(c15Alphabet)+1, "sch")
		if k == len(c15Alphabet) {
			b[i] = byte(ch.Draw(256, "anybyte"))
		} else {
			b[i] = c15Alphabet[k]
		}
	}
	return string(b)
}

type c15Op struct {
	Join bool     `json:"join"`
	In   []string `json:"in"`
	// observations
	Out      string   `json:"out"`
	outCopy  string   // private copy taken at return time
	Fields   []string `json:"fields"`
	Complete bool     `json:"complete"`
	Panic    string   `json:"panic,omitempty"`
}

type c15Config struct {
	Threads    int `json:"threads"`
	StayWeight int `json:"stay_weight"`
	PoolPolicy int `json:"pool_policy"`
	PoolDrop   int `json:"pool_drop_pct"`
	// Dirty: before the workload, leave used objects in both pools (a scanner
	// that stopped inside an unterminated quotation, buffers holding text).
	Dirty bool `json:"pools_pre_dirtied"`
}

func execC15(op *c15Op) {
	if op.Join {
		op.Out = shell.Join(op.In)
	} else {
		op.Out = shell.Quote(op.In[0])
	}
	op.outCopy = strings.Clone(op.Out)
	op.Fields, op.Complete = shell.Split(op.Out)
}

func checkC15(op *c15Op, st *Stats) *Violation {
	if op.Panic != "" {
		return &Violation{"panic", fmt.Sprintf("%v panicked: %s", op.In, op.Panic)}
	}
	if op.Out != op.outCopy {
		return &Violation{"result-changed", fmt.Sprintf("the string returned for %q changed after it was returned: %q, was %q (it aliases a pooled buffer)", op.In, op.Out, op.outCopy)}
	}
	if op.Join {
		if !op.Complete || !equalStrings(op.Fields, op.In) {
			return &Violation{"join-split-mismatch", fmt.Sprintf("Split(Join(%q)) = %q, complete=%v (Join gave %q)", op.In, op.Fields, op.Complete, op.Out)}
		}
		if len(op.In) == 0 {
			st.Inc("probe:empty_list", 1)
		}
		c15Shell.add(st, ShellCase{Source: op.Out, Want: op.In, What: fmt.Sprintf("Join(%q) = %q", op.In, op.Out)})
		return nil
	}
	s := op.In[0]
	if !op.Complete || len(op.Fields) != 1 || op.Fields[0] != s {
		return &Violation{"quote-split-mismatch", fmt.Sprintf("Split(Quote(%q)) = %q, complete=%v (Quote gave %q)", s, op.Fields, op.Complete, op.Out)}
	}
	val, unq, ok := refUnquote(op.Out)
	if !ok {
		return &Violation{"quote-malformed", fmt.Sprintf("Quote(%q) = %q is not a well-formed shell word", s, op.Out)}
	}
	if unq != 0 {
		return &Violation{"unquoted-special", fmt.Sprintf("Quote(%q) = %q leaves %q outside any quoting", s, op.Out, unq)}
	}
	if val != s {
		return &Violation{"quote-value-mismatch", fmt.Sprintf("a POSIX shell reads Quote(%q) = %q as %q", s, op.Out, val)}
	}
	if s == "" {
		st.Inc("probe:empty_string", 1)
	}
	c15Shell.add(st, ShellCase{Source: op.Out, Want: []string{s}, What: fmt.Sprintf("Quote(%q) = %q", s, op.Out)})
	if strings.Contains(s, "'") {
		st.Inc("probe:string_with_single_quote", 1)
	}
	return nil
}

func runC15(ch chooser.Chooser, st *Stats) *Outcome {
	var cfg c15Config
	cfg.Threads = 1 + ch.Draw(3, "threads")
	cfg.StayWeight = c09Stay[ch.Draw(len(c09Stay), "stay")]
	cfg.PoolPolicy = ch.Draw(4, "poolpolicy")
	cfg.PoolDrop = []int{0, 20, 100}[ch.Draw(3, "pooldrop")]
	cfg.Dirty = ch.Draw(2, "dirty") == 1
	ops := make([][]*c15Op, cfg.Threads)
	for t := range ops {
		n := 1 + ch.Draw(4, "nops")
		for i := 0; i < n; i++ {
			op := &c15Op{Join: ch.Draw(2, "join") == 1}
			if op.Join {
				k := ch.Draw(5, "nstr")
				long := ch.Draw(64, "longlist") == 63
				if long {
					// A long list: more elements than a machine word has bits.
					k = 60 + ch.Draw(80, "nstrlong")
				}
				for j := 0; j < k; j++ {
					if long {
						op.In = append(op.In, drawShortString(ch, 3))
					} else {
						op.In = append(op.In, drawString(ch, 8))
					}
				}
			} else {
				op.In = []string{drawString(ch, 8)}
			}
			ops[t] = append(ops[t], op)
		}
	}
	resetShellPools()
	// Thread 0 optionally dirties the pools first (inside the run, so that the
	// objects enter the simulated pools).
	dirty := cfg.Dirty
	bodies := make([]func(int), cfg.Threads)
	for t := range bodies {
		bodies[t] = func(tid int) {
			if tid == 0 && dirty {
				shell.Split(`a "unterminated \`)
				shell.Join([]string{"left over", "text'"})
				shell.Quote("more left over")
			}
			for _, op := range ops[tid] {
				op := op
				if p := threadSafely(func() { execC15(op) }); p != "" {
					op.Panic = p
				}
			}
		}
	}
	dirtyGets := 0
	res := runSched(ch, sched.Config{StayWeight: cfg.StayWeight, PoolPolicy: cfg.PoolPolicy, PoolDropPct: cfg.PoolDrop, MaxSteps: 20000}, bodies, &dirtyGets)
	out := &Outcome{Steps: res.Steps, Nontrivial: dirtyGets > 0, Detached: res.Detached}
	h := newHasher()
	h.u64(res.Hash)
	for _, os := range ops {
		for _, op := range os {
			h.str(op.Out)
		}
	}
	out.Hash = h.sum()
	out.schedule = scheduleOf(res)
	out.Trace = func() any { return map[string]any{"config": cfg, "ops_per_thread": ops, "schedule": out.schedule} }
	if dirtyGets > 0 {
		st.Inc("probe:pool_returned_used_object", int64(dirtyGets))
		st.Inc("fault:pool_handed_out_a_used_object", int64(dirtyGets))
	}
	st.Inc("fault:pool_dropped_object_on_put", int64(poolDrops))
	if cfg.Dirty {
		st.Inc("fault:pools_left_dirty_before_the_workload", 1)
	}
	if res.Switches > 0 {
		st.Inc("probe:context_switch_inside_quote_or_split", 1)
	}
	st.Inc("sched:threads_detached", int64(res.Detached))
	st.Inc("fault:preemptive_context_switch_at_a_yield_point", int64(res.Switches))
	if v := schedViolation(res); v != nil {
		out.Violation = v
		return out
	}
	for t, os := range ops {
		for i, op := range os {
			if v := checkC15(op, st); v != nil {
				v.Detail = fmt.Sprintf("thread %d op %d: %s", t, i, v.Detail)
				out.Violation = v
				return out
			}
		}
	}
	return out
}

func init() {
	register(&Property{
		ID:  "C15",
		Run: runC15,
		Rule: "one run = 1-3 simulated threads, each performing 1-4 Quote or Join calls (strings of length 0-8 over a weighted alphabet of every POSIX special character, quotes, backslash, whitespace, letters, non-ASCII, NUL and occasionally any byte; lists of 0-4 strings) followed by Split of the result, with both sync.Pools of the package simulated: each Get receives a fresh or a previously used object by choice, each Put keeps or drops by choice, pools optionally pre-dirtied; checked: Split(Join(ss)) == ss and complete, Split(Quote(s)) == [s], an independent POSIX 2.2 reader of Quote(s) finds no special character unquoted and reads back s, results do not change after return, no data race; " +
			"a run is non-trivial if some Get returned a previously used object; distinct = distinct fingerprints of (event log, outputs)",
		Real:           []string{"shell.Quote", "shell.Join", "shell.Split", "shell.Scanner", "bytes.Buffer", "bufio.Reader"},
		Simulated:      []string{"sync.Pool object choice and retention for bufPool and scanPool", "goroutine scheduling at every pool operation"},
		RequiredProbes: []string{"probe:pool_returned_used_object", "probe:context_switch_inside_quote_or_split", "probe:empty_string", "probe:empty_list", "probe:string_with_single_quote", "shell_oracle:evaluations"},
		Finish:         finishShell(&c15Shell),
	})
}
