package props

import (
	"fmt"
	"io"
	"strings"

	"github.com/creachadair/mds/shell"
	"verifsim/chooser"
	"verifsim/sched"
)

// C16: shell.Scanner / shell.Split over a simulated reader (DESIGN.md 4.4).
//
// C16/delivery: fault-free delivery - any fragmentation, empty reads, data with
// EOF - must give exactly the reference tokenization. C16/faults adds injected
// read errors and an early EOF followed by more data, with the narrowly relaxed
// oracle described in the design. Both run 1-3 simulated threads sharing the
// package's pools, with every Read and every pool operation a scheduling point.

var c16Alphabet = []byte{'a', 'b', ' ', '\t', '\n', '\\', '\'', '"'}

// Other bytes, drawn occasionally: punctuation with no meaning to the
// tokenizer, NUL, non-ASCII, and the bytes Go's unicode.IsSpace accepts but
// POSIX does not treat as blanks (CR, VT, FF, and the UTF-8 encodings of NEL
// and NBSP).
var c16Extra = []byte{'#', '*', '=', 0xc3, 0xa9, 0, '-', '~', '{', '\r', '\v', '\f', 0xc2, 0x85, 0xa0}

// drawInput draws a tokenizer input of length 0..maxLen. It never produces $ or
// ` (no meaning to Split; see DESIGN.md 4.4).
func drawInput(ch chooser.Chooser, maxLen int) string {
	switch ch.Draw(32, "long?") {
	case 31:
		return drawLongInput(ch)
	case 30, 29, 28, 27:
		// Medium: tokens of tens to a couple of hundred bytes, so that escapes
		// and quotes land at every offset around small-buffer thresholds (64
		// bytes is bytes.Buffer's, and a popular choice for inline buffers).
		return drawShortInput(ch, 40+ch.Draw(200, "medlen"))
	}
	return drawShortInput(ch, maxLen)
}

// drawLongInput draws an input with one long run (a word, a quoted section or
// a stretch of blanks) sized so that it straddles the 4096-byte buffer of the
// scanner's bufio.Reader (or two of them): a tuning constant the caller cannot
// see, around which "random longer inputs" of the property must also hold.
func drawLongInput(ch chooser.Chooser) string {
	pre := drawShortInput(ch, 6)
	post := drawShortInput(ch, 6)
	n := 4080 + ch.Draw(40, "runlen")
	if ch.Draw(4, "twobuf") == 3 {
		n += 4096
	}
	var open, close string
	var fill []byte
	switch ch.Draw(4, "runkind") {
	case 0: // bare word
		fill = []byte{'a', 'b', '-'}
	case 1:
		open, close = "'", "'"
		fill = []byte{'a', ' ', '\\', '"', '\n'}
	case 2:
		open, close = "\"", "\""
		fill = []byte{'a', ' ', '\'', '\n'}
	default: // blanks
		fill = []byte{' ', '\t', '\n'}
	}
	f := fill[ch.Draw(len(fill), "fill")]
	b := make([]byte, 0, n+len(pre)+len(post)+2)
	b = append(b, pre...)
	b = append(b, open...)
	for i := 0; i < n; i++ {
		b = append(b, f)
	}
	b = append(b, close...)
	b = append(b, post...)
	return string(b)
}

func drawShortInput(ch chooser.Chooser, maxLen int) string {
	n := ch.Draw(maxLen+1, "len")
	b := make([]byte, n)
	for i := range b {
		k := ch.Draw(len(c16Alphabet)+1, "ch")
		if k == len(c16Alphabet) {
			b[i] = c16Extra[ch.Draw(len(c16Extra), "xch")]
		} else {
			b[i] = c16Alphabet[k]
		}
	}
	return string(b)
}

// Session modes.
const (
	smNext    = iota // Next until false
	smEach           // Each with an early stop after K tokens, then Next until false
	smSplit          // K Nexts, then Scanner.Split
	smRest           // K Nexts, then Rest and drain
	smPool           // shell.Split(string) through the scanner pool
	smAbandon        // K Nexts, then the caller walks away (the scanner and possibly the reader are re-used)
	numSessionModes
)

var sessionModeNames = [...]string{"next", "each-early-stop", "scanner-split", "rest", "split-via-pool", "abandon-after-k"}

type c16Session struct {
	Input  string       `json:"input"`
	Mode   int          `json:"-"`
	ModeS  string       `json:"mode"`
	K      int          `json:"k"`
	Faults readerFaults `json:"-"`
	FaultS string       `json:"delivery"`
	Fresh  bool         `json:"fresh_scanner"` // NewScanner instead of Reset
	// SameReader: hand Reset the very reader object the previous session of this
	// thread used, re-loaded with this session's input (as callers do with a
	// strings.Reader or bytes.Reader they Reset).
	SameReader bool `json:"same_reader_object"`
	// Plain: read from a strings.Reader (which is also an io.ByteReader,
	// io.RuneReader, io.WriterTo, ...) instead of the simulated reader: callers
	// mix reader kinds across Resets.
	Plain bool `json:"plain_strings_reader"`
	// RestSplit >= 0 (mode rest): read that many bytes from the reader Rest
	// returned, then call Rest again and drain that one.
	RestSplit int `json:"rest_called_again_after_bytes"`
	// NextAfterRest (mode rest): call Next once right after Rest, before the
	// remainder is read.
	NextAfterRest bool `json:"next_called_right_after_rest"`
	// Resume (mode rest): instead of draining the reader Rest returned, hand it
	// back to Reset (after reading RestSplit bytes from it, if any) and go on
	// scanning: the resume-after-raw-payload idiom.
	Resume bool     `json:"reset_to_rest_reader_and_scan_on"`
	After  []string `json:"tokens_after_resume,omitempty"`
	reader *simReader
	// observations (written by the executing thread, read after the join)
	Tokens    []string `json:"tokens"`
	Completes []bool   `json:"complete_after_each"`
	Rest      string   `json:"rest,omitempty"`
	RestErr   string   `json:"rest_error,omitempty"`
	Err       string   `json:"err,omitempty"`
	errVal    error
	PoolOK    bool `json:"split_flag,omitempty"`
	// SplitAgain (mode split-via-pool): the caller overwrites the slice it got
	// and calls Split on the same string once more.
	SplitAgain bool     `json:"caller_overwrites_result_and_splits_again"`
	Again      []string `json:"tokens_second_call,omitempty"`
	AgainOK    bool     `json:"split_flag_second_call,omitempty"`
	Extra      []bool   `json:"next_after_end"`
	// EndComplete is Complete() right after Next first returned false.
	EndComplete bool   `json:"complete_at_end"`
	Panic       string `json:"panic,omitempty"`
	restTaken   bool
	usedPlan    []readSeg
	planLen     int
	dataLen     int
	reused      bool
}

type c16Config struct {
	Threads    int  `json:"threads"`
	Errors     bool `json:"failing_reads_enabled"`
	StayWeight int  `json:"stay_weight"`
	PoolPolicy int  `json:"pool_policy"`
	PoolDrop   int  `json:"pool_drop_pct"`
}

func resetShellPools() {
	for _, p := range shell.VerifPools() {
		p.SimReset()
	}
}

// execSession runs one session on scanner sc (nil: make one). prev is the
// reader object of the thread's previous scanner session (nil if none); the
// reader object this session used is returned.
func execSession(sc *shell.Scanner, prev *simReader, s *c16Session) (*shell.Scanner, *simReader) {
	if s.Mode == smPool {
		toks, ok := shell.Split(s.Input)
		s.Tokens, s.PoolOK = append([]string(nil), toks...), ok
		if s.SplitAgain {
			// The result belongs to the caller: overwrite it, then ask again.
			for i := range toks {
				toks[i] = "overwritten by the caller"
			}
			again, ok2 := shell.Split(s.Input)
			s.Again, s.AgainOK = append([]string{}, again...), ok2
		}
		return sc, prev
	}
	rd := s.reader
	if s.SameReader && prev != nil && !s.Plain {
		prev.reload(s.reader)
		rd = prev
		s.reader = prev
	}
	var src io.Reader = rd
	if s.Plain {
		src = strings.NewReader(s.Input)
	}
	if sc == nil || s.Fresh {
		sc = shell.NewScanner(src)
	} else {
		sc.Reset(src)
	}
	next := func() bool {
		if !sc.Next() {
			return false
		}
		s.Tokens = append(s.Tokens, sc.Text())
		s.Completes = append(s.Completes, sc.Complete())
		return true
	}
	drain := func() {
		for next() {
		}
	}
	switch s.Mode {
	case smNext:
		drain()
	case smEach:
		n := 0
		sc.Each(func(tok string) bool {
			s.Tokens = append(s.Tokens, tok)
			s.Completes = append(s.Completes, sc.Complete())
			n++
			return n < s.K
		})
		drain() // no-op if Each ran to the end of the input
	case smSplit:
		ok := true
		for i := 0; i < s.K && ok; i++ {
			ok = next()
		}
		rest := sc.Split()
		s.Tokens = append(s.Tokens, rest...)
		for range rest {
			s.Completes = append(s.Completes, true) // not observable per token
		}
		if len(rest) > 0 {
			s.Completes[len(s.Completes)-1] = sc.Complete()
		}
	case smAbandon:
		ok := true
		for i := 0; i < s.K && ok; i++ {
			ok = next()
		}
		s.errVal = sc.Err()
		if s.errVal != nil {
			s.Err = s.errVal.Error()
		}
		s.usedPlan, s.planLen, s.dataLen, s.reused = rd.used(), len(rd.plan), len(rd.data), rd.reloaded
		return sc, rd // walk away: no draining, no further calls
	case smRest:
		ok := true
		for i := 0; i < s.K && ok; i++ {
			ok = next()
		}
		r := sc.Rest()
		s.restTaken = true
		if s.NextAfterRest {
			// Before the remainder is read: the scanner is finished, it must not
			// take bytes that now belong to the caller.
			s.Extra = append(s.Extra, sc.Next())
		}
		var head []byte
		if s.RestSplit >= 0 {
			// Take some bytes, then ask for the remainder again.
			head = make([]byte, s.RestSplit)
			n, _ := io.ReadFull(r, head)
			head = head[:n]
			if !s.Resume {
				r = sc.Rest()
			}
		}
		if s.Resume {
			s.Rest = string(head)
			sc.Reset(r)
			for sc.Next() {
				s.After = append(s.After, sc.Text())
			}
			s.After = append(s.After, "") // sentinel: scanning ended
			s.usedPlan, s.planLen, s.dataLen, s.reused = rd.used(), len(rd.plan), len(rd.data), rd.reloaded
			return sc, rd
		}
		b, err := io.ReadAll(r)
		s.Rest = string(head) + string(b)
		if err != nil {
			s.RestErr = err.Error()
		}
	}
	if s.Mode != smRest {
		s.errVal = sc.Err()
		if s.errVal != nil {
			s.Err = s.errVal.Error()
		}
		s.EndComplete = sc.Complete()
	}
	// Next must stay false for ever, whatever the reader would still deliver.
	for i := 0; i < 2; i++ {
		s.Extra = append(s.Extra, sc.Next())
	}
	s.usedPlan, s.planLen, s.dataLen, s.reused = rd.used(), len(rd.plan), len(rd.data), rd.reloaded
	return sc, rd
}

// checkSession compares a session's observations with the reference.
func checkSession(s *c16Session, st *Stats) *Violation {
	if s.Panic != "" {
		return &Violation{"panic", fmt.Sprintf("scanning %q panicked: %s", s.Input, s.Panic)}
	}
	f := s.Faults
	effective := s.Input
	if s.Mode != smPool && f.EarlyEOF >= 0 && f.ErrAt < 0 {
		effective = s.Input[:f.EarlyEOF] // the stream ended there; what comes later must never be read as tokens
	}
	ref := refTokenize(effective)
	var want []string
	for _, t := range ref.Tokens {
		want = append(want, t.Text)
	}
	failing := s.Mode != smPool && f.ErrAt >= 0
	desc := fmt.Sprintf("input %q mode %s k=%d delivery %s", s.Input, sessionModeNames[s.Mode], s.K, f)

	for i, x := range s.Extra {
		if x {
			return &Violation{"next-after-end", fmt.Sprintf("%s: Next returned true on call %d after it had returned false / after Rest", desc, i+1)}
		}
	}

	if s.Mode == smRest {
		// tokens before Rest: exactly the first min(K, all) reference tokens
		k := len(s.Tokens)
		if failing {
			if k > len(want) || !equalStrings(s.Tokens, want[:k]) {
				return &Violation{"token-mismatch", fmt.Sprintf("%s: tokens %q are not a prefix of the reference tokens %q", desc, s.Tokens, want)}
			}
			// Under a (persisting) read error Rest may be cut short, never wrong.
			if !anySuffixHasPrefix(effective, ref, k, s.Rest) {
				return &Violation{"rest-mismatch", fmt.Sprintf("%s: after %d tokens Rest returned %q, which is not a prefix of any admissible remainder", desc, k, s.Rest)}
			}
			return nil
		}
		wantK := s.K
		if wantK > len(want) {
			wantK = len(want) // Next returned false before K
		}
		if k != wantK && !(k == len(want) && s.K >= len(want)) {
			return &Violation{"token-mismatch", fmt.Sprintf("%s: got %d tokens %q before Rest, reference has %q", desc, k, s.Tokens, want)}
		}
		if !equalStrings(s.Tokens, want[:k]) {
			return &Violation{"token-mismatch", fmt.Sprintf("%s: tokens before Rest %q, reference %q", desc, s.Tokens, want[:k])}
		}
		exhausted := s.K > len(want) // Next had already returned false
		if s.Resume {
			// The payload bytes read plus the tokens scanned afterwards must be
			// what some admissible remainder consists of.
			ok := false
			var wantAfter [][]string
			for _, r := range admissibleRests(effective, ref, k, exhausted) {
				if len(s.Rest) > len(r) || r[:len(s.Rest)] != s.Rest {
					continue
				}
				var toks []string
				for _, t := range refTokenize(r[len(s.Rest):]).Tokens {
					toks = append(toks, t.Text)
				}
				toks = append(toks, "")
				wantAfter = append(wantAfter, toks)
				if equalStrings(toks, s.After) {
					ok = true
				}
			}
			if !ok {
				return &Violation{"rest-mismatch", fmt.Sprintf("%s: after %d tokens, %d payload bytes %q were read from the reader Rest returned, which was then handed back to Reset; scanning on gave %q, the unconsumed input tokenizes as one of %q", desc, k, len(s.Rest), s.Rest, s.After, wantAfter)}
			}
			st.Inc("probe:resumed_scanning_from_rest_reader", 1)
			return nil
		}
		if !restMatchesEx(effective, ref, k, exhausted, s.Rest) {
			return &Violation{"rest-mismatch", fmt.Sprintf("%s: after %d tokens Rest returned %q; the unconsumed input is %q", desc, k, s.Rest, admissibleRests(effective, ref, k, exhausted))}
		}
		if s.RestErr != "" {
			return &Violation{"rest-mismatch", fmt.Sprintf("%s: draining Rest failed with %q on a stream that has no error", desc, s.RestErr)}
		}
		st.Inc(fmt.Sprintf("probe:rest_after_%s", bucket(k, len(want))), 1)
		if s.RestSplit >= 0 {
			st.Inc("probe:rest_called_twice", 1)
		}
		return nil
	}

	if s.Mode == smAbandon {
		k := len(s.Tokens)
		if k > len(want) || !equalStrings(s.Tokens, want[:k]) {
			return &Violation{"token-mismatch", fmt.Sprintf("%s: tokens %q are not a prefix of the reference tokens %q", desc, s.Tokens, want)}
		}
		if !failing && k != minInt(s.K, len(want)) {
			return &Violation{"token-mismatch", fmt.Sprintf("%s: %d Next calls produced %d tokens %q, reference has %q", desc, s.K, k, s.Tokens, want)}
		}
		if !failing {
			for i, c := range s.Completes {
				if c != ref.Tokens[i].Complete {
					return &Violation{"complete-mismatch", fmt.Sprintf("%s: Complete() after token %d (%q) = %v, reference %v", desc, i, s.Tokens[i], c, ref.Tokens[i].Complete)}
				}
			}
			if k < len(want) {
				st.Inc("probe:scanner_abandoned_mid_input", 1)
			}
		}
		return nil
	}
	if failing {
		if len(s.Tokens) > len(want) || !equalStrings(s.Tokens, want[:len(s.Tokens)]) {
			return &Violation{"token-mismatch", fmt.Sprintf("%s: tokens %q are not a prefix of the reference tokens %q", desc, s.Tokens, want)}
		}
		if len(s.Tokens) < len(want) || s.errVal != nil {
			// the scanner stopped early: it must say why
			if s.errVal != errInjected && s.errVal != io.EOF {
				return &Violation{"error-not-reported", fmt.Sprintf("%s: scanner stopped after %d of %d tokens with Err()=%v, want the injected error", desc, len(s.Tokens), len(want), s.errVal)}
			}
		}
		if s.errVal == errInjected {
			st.Inc("probe:scanner_reported_injected_error", 1)
			// The scanner has seen exactly input[:ErrAt]: the word it was in
			// when the stream broke is complete or not by the same rules.
			if s.Mode == smNext || s.Mode == smEach {
				cut := refTokenize(s.Input[:f.ErrAt])
				if s.EndComplete != cut.Complete {
					return &Violation{"complete-mismatch", fmt.Sprintf("%s: after the read error Complete()=%v, but the input up to the error (%q) leaves the scanner %s", desc, s.EndComplete, s.Input[:f.ErrAt], map[bool]string{true: "between words or in a plain word (complete)", false: "inside a quotation or after a backslash (incomplete)"}[cut.Complete])}
				}
				if !cut.Complete {
					st.Inc("probe:error_inside_quotation_or_escape", 1)
				}
			}
		}
		return nil
	}

	if !equalStrings(s.Tokens, want) {
		return &Violation{"token-mismatch", fmt.Sprintf("%s: tokens %q, reference %q", desc, s.Tokens, want)}
	}
	if s.Mode == smPool {
		if s.PoolOK != ref.Complete {
			return &Violation{"complete-mismatch", fmt.Sprintf("%s: Split reported complete=%v, reference %v", desc, s.PoolOK, ref.Complete)}
		}
		if s.SplitAgain {
			if !equalStrings(s.Again, want) || s.AgainOK != ref.Complete {
				return &Violation{"token-mismatch", fmt.Sprintf("%s: after the caller overwrote the slice Split had returned, a second Split of the same string gave %q (complete=%v), reference %q", desc, s.Again, s.AgainOK, want)}
			}
			st.Inc("probe:split_again_after_overwriting_result", 1)
		}
		return nil
	}
	for i, c := range s.Completes {
		wantC := ref.Tokens[i].Complete
		if c != wantC {
			return &Violation{"complete-mismatch", fmt.Sprintf("%s: Complete() after token %d (%q) = %v, reference %v", desc, i, s.Tokens[i], c, wantC)}
		}
	}
	if s.errVal != nil && s.errVal != io.EOF {
		return &Violation{"spurious-error", fmt.Sprintf("%s: Err()=%v on a stream that has no error", desc, s.errVal)}
	}
	if !ref.Complete {
		st.Inc("probe:incomplete_final_token", 1)
	}
	if shellSafeInput(s.Input, ref) && effective == s.Input {
		c16Shell.add(st, ShellCase{Source: s.Input, Want: want, What: fmt.Sprintf("the words %q", s.Input)})
	}
	return nil
}

func minInt(a, b int) int {
	if a < b {
		return a
	}
	return b
}

func bucket(k, n int) string {
	switch {
	case k == 0:
		return "0_tokens"
	case k >= n:
		return "all_tokens"
	}
	return "some_tokens"
}

func equalStrings(a, b []string) bool {
	if len(a) != len(b) {
		return false
	}
	for i := range a {
		if a[i] != b[i] {
			return false
		}
	}
	return true
}

// restRange returns the admissible cut points for a Rest taken after k tokens.
func restRange(in string, ref refResult, k int, exhausted bool) (lo, hi int) {
	switch {
	case exhausted:
		return len(in), len(in)
	case k == 0:
		return 0, ref.First
	default:
		return ref.Tokens[k-1].End, ref.Tokens[k-1].Next
	}
}

func admissibleRests(in string, ref refResult, k int, exhausted bool) []string {
	lo, hi := restRange(in, ref, k, exhausted)
	var out []string
	for p := lo; p <= hi; p++ {
		if p > lo && p < len(in) && in[p-1] == '\\' && in[p] == '\n' {
			continue // never cut a line continuation in half
		}
		out = append(out, in[p:])
	}
	return out
}

func restMatchesEx(in string, ref refResult, k int, exhausted bool, got string) bool {
	for _, r := range admissibleRests(in, ref, k, exhausted) {
		if r == got {
			return true
		}
	}
	return false
}

func anySuffixHasPrefix(in string, ref refResult, k int, got string) bool {
	for _, ex := range []bool{false, true} {
		for _, r := range admissibleRests(in, ref, k, ex) {
			if strings.HasPrefix(r, got) {
				return true
			}
		}
	}
	return false
}

func drawSession(ch chooser.Chooser, withErrors bool, st *Stats) *c16Session {
	s := &c16Session{}
	s.Input = drawInput(ch, 14)
	s.Mode = weighted(ch, []int{4, 2, 2, 3, 3, 3}, "mode")
	s.ModeS = sessionModeNames[s.Mode]
	ntok := len(refTokenize(s.Input).Tokens)
	s.K = ch.Draw(ntok+2, "k")
	s.Fresh = ch.Draw(3, "fresh") == 0
	s.SplitAgain = s.Mode == smPool && ch.Draw(3, "splitagain") == 2
	s.SameReader = ch.Draw(2, "samereader") == 1
	s.Plain = ch.Draw(5, "plain") == 4
	s.RestSplit = -1
	s.NextAfterRest = s.Mode == smRest && ch.Draw(2, "nextafterrest") == 1
	s.Resume = s.Mode == smRest && ch.Draw(4, "resume") == 3
	if s.Mode == smRest && ch.Draw(3, "resttwice") == 2 {
		s.RestSplit = ch.Draw(len(s.Input)+1, "restsplit")
	}
	if s.Mode != smPool && s.Plain {
		// an ordinary in-memory reader: whole input, clean EOF
		s.Faults = readerFaults{ErrAt: -1, EarlyEOF: -1}
		s.reader = newSimReader(ch, s.Input, s.Faults, st)
	} else if s.Mode != smPool {
		s.Faults = drawReaderFaults(ch, len(s.Input), withErrors)
		if len(s.Input) > 256 && s.Faults.Frag == 1 {
			s.Faults.Frag = 2 // thousands of one-byte reads buy nothing
		}
		if len(s.Input) > 256 {
			s.Faults.EmptyPct = 0
		}
		if s.Mode == smRest {
			// "The bytes not yet consumed" has no meaning for a stream that
			// resumes after EOF or after an error: Rest is exercised with
			// persisting errors only.
			s.Faults.EarlyEOF = -1
			if s.Faults.ErrAt >= 0 {
				s.Faults.ErrStays = true
			}
		}
		s.reader = newSimReader(ch, s.Input, s.Faults, st)
	} else {
		s.Faults = readerFaults{ErrAt: -1, EarlyEOF: -1}
	}
	s.FaultS = s.Faults.String()
	return s
}

func runC16(withErrors bool) func(ch chooser.Chooser, st *Stats) *Outcome {
	return func(ch chooser.Chooser, st *Stats) *Outcome {
		var cfg c16Config
		cfg.Threads = 1 + ch.Draw(3, "threads")
		cfg.Errors = withErrors
		cfg.StayWeight = c09Stay[ch.Draw(len(c09Stay), "stay")]
		cfg.PoolPolicy = ch.Draw(4, "poolpolicy")
		cfg.PoolDrop = []int{0, 20, 100}[ch.Draw(3, "pooldrop")]
		sessions := make([][]*c16Session, cfg.Threads)
		for t := range sessions {
			n := 1 + ch.Draw(3, "nsess")
			for i := 0; i < n; i++ {
				sessions[t] = append(sessions[t], drawSession(ch, withErrors, st))
			}
		}
		resetShellPools()
		bodies := make([]func(int), cfg.Threads)
		for t := range bodies {
			bodies[t] = func(tid int) {
				var sc *shell.Scanner
				var rd *simReader
				for _, s := range sessions[tid] {
					s := s
					if p := threadSafely(func() { sc, rd = execSession(sc, rd, s) }); p != "" {
						s.Panic = p
						sc, rd = nil, nil
					}
				}
			}
		}
		dirtyGets := 0
		res := runSched(ch, sched.Config{StayWeight: cfg.StayWeight, PoolPolicy: cfg.PoolPolicy, PoolDropPct: cfg.PoolDrop, MaxSteps: 20000}, bodies, &dirtyGets)
		out := &Outcome{Hash: res.Hash, Steps: res.Steps, Detached: res.Detached}
		h := newHasher()
		h.u64(res.Hash)
		nontrivial := false
		for _, ss := range sessions {
			for _, s := range ss {
				for _, t := range s.Tokens {
					h.str(t)
				}
				h.str(s.Rest)
				h.str(s.Err)
				if s.reader != nil {
					if s.reused {
						st.Inc("probe:reader_object_reused", 1)
					}
					countFiredSegs(st, s.usedPlan, s.planLen, s.dataLen)
					if s.planLen > 1 {
						nontrivial = true
					}
				}
			}
		}
		out.Hash = h.sum()
		out.Nontrivial = nontrivial || dirtyGets > 0
		out.schedule = scheduleOf(res)
		out.Trace = func() any {
			return map[string]any{"config": cfg, "sessions_per_thread": sessions, "schedule": out.schedule}
		}
		if dirtyGets > 0 {
			st.Inc("probe:pool_returned_used_object", int64(dirtyGets))
			st.Inc("fault:pool_handed_out_a_used_object", int64(dirtyGets))
		}
		st.Inc("fault:pool_dropped_object_on_put", int64(poolDrops))
		if res.Switches > 0 {
			st.Inc("probe:context_switch_between_scanner_reads", 1)
		}
		st.Inc("sched:threads_detached", int64(res.Detached))
		st.Inc("fault:preemptive_context_switch_at_a_yield_point", int64(res.Switches))
		if v := schedViolation(res); v != nil {
			out.Violation = v
			return out
		}
		for t, ss := range sessions {
			for i, s := range ss {
				if i > 0 && ss[i-1].Plain && ss[i-1].Mode != smPool && !s.Plain && s.Mode != smPool && !s.Fresh {
					st.Inc("probe:plain_reader_then_simulated_reader", 1)
				}
				if v := checkSession(s, st); v != nil {
					v.Detail = fmt.Sprintf("thread %d session %d: %s", t, i, v.Detail)
					out.Violation = v
					return out
				}
				// coverage probes from the reference's walk over this input
				ref := refTokenize(s.Input)
				for j, v := range ref.visits {
					st.Inc(pairNames[v[0]][v[1]], 1)
					if j > 0 {
						p := ref.visits[j-1]
						st.Inc(triNames[p[0]][p[1]][v[1]], 1)
					}
				}
			}
		}
		return out
	}
}

// runSched runs the bodies under the scheduler, counting pool hits.
func runSched(ch chooser.Chooser, cfg sched.Config, bodies []func(int), dirtyGets *int) *sched.Result {
	poolDrops = 0
	sched.PoolHookFunc = func(get bool, n, choice int) {
		if get && choice > 0 && choice <= n {
			*dirtyGets++
		}
		if !get && choice == 0 {
			poolDrops++
		}
	}
	defer func() { sched.PoolHookFunc = nil }()
	return sched.Run(ch, cfg, bodies)
}

// poolDrops counts the Puts of the last run whose object the simulated pool
// dropped (scheduler goroutine only).
var poolDrops int

// schedViolation maps scheduler-level failures to violations.
func schedViolation(res *sched.Result) *Violation {
	if res.Deadlock {
		return &Violation{"deadlock", "no simulated thread can run and some have not finished: " + res.DeadInfo}
	}
	if res.Overrun {
		return &Violation{"no-progress", fmt.Sprintf("run exceeded %d scheduler steps", res.Steps)}
	}
	for _, p := range res.Panics {
		return &Violation{"panic", fmt.Sprintf("thread %d panicked: %s", p.Tid, p.Value)}
	}
	if res.Races > 0 {
		return &Violation{"data-race", fmt.Sprintf("%d race detector report(s) during the run\n%s", res.Races, raceLogTail())}
	}
	return nil
}

var pairNames [numRefStates][numRefClasses]string
var triNames [numRefStates][numRefClasses][numRefClasses]string

func init() {
	for s := 0; s < numRefStates; s++ {
		for c := 0; c < numRefClasses; c++ {
			pairNames[s][c] = fmt.Sprintf("pair:%s/%s", refStateNames[s], refClassNames[c])
			for d := 0; d < numRefClasses; d++ {
				triNames[s][c][d] = fmt.Sprintf("tri:%s/%s/%s", refStateNames[s], refClassNames[c], refClassNames[d])
			}
		}
	}
}

func c16Pairs() []string {
	// Every (reference state, class) pair that can occur: all of them except
	// that nothing is ever "between words" at a non-separator without starting
	// a word - which the walk records as between/<class> too - so all 42.
	var out []string
	for s := 0; s < numRefStates; s++ {
		for c := 0; c < numRefClasses; c++ {
			out = append(out, fmt.Sprintf("pair:%s/%s", refStateNames[s], refClassNames[c]))
		}
	}
	return out
}

func init() {
	real := []string{"shell.Scanner", "shell.Split", "bufio.Reader", "bytes.Buffer", "sync.Pool semantics via simsync.Pool (Put happens-before the Get that returns the object)"}
	register(&Property{
		ID:  "C16/delivery",
		Run: runC16(false),
		Rule: "one run = 1-3 simulated threads, each running 1-3 scanner sessions (input of length 0-14 over the tokenizer's six classes; Next loop / Each with early stop / Scanner.Split / Rest after k tokens / shell.Split through the pool; scanner re-used via Reset or fresh) over a simulated reader that fragments delivery (whole, byte-wise, random chunks), inserts empty reads and may deliver the last bytes together with EOF; every Read and pool operation is a scheduling point; tokens, Complete, Split's flag, Rest and stickiness of the end compared with an independent POSIX tokenizer; " +
			"a run is non-trivial if some reader needed more than one Read or a pooled object was re-used; distinct = distinct fingerprints of (event log, tokens, rests)",
		Real:           real,
		Simulated:      []string{"the io.Reader handed to scanners", "sync.Pool object choice and retention", "goroutine scheduling at every Read and pool operation"},
		RequiredProbes: append(c16Pairs(), "fault:short_read", "fault:empty_read", "fault:data_with_eof", "probe:pool_returned_used_object", "probe:rest_after_0_tokens", "probe:rest_after_some_tokens", "probe:rest_after_all_tokens", "probe:incomplete_final_token", "probe:context_switch_between_scanner_reads", "shell_oracle:evaluations", "probe:scanner_abandoned_mid_input", "probe:reader_object_reused", "probe:rest_called_twice", "probe:plain_reader_then_simulated_reader", "probe:resumed_scanning_from_rest_reader"),
		Finish:         finishShell(&c16Shell),
	})
	register(&Property{
		ID:  "C16/faults",
		Run: runC16(true),
		Rule: "as C16/delivery, plus failing delivery: an injected read error at a drawn offset (with or after the bytes before it, persisting or followed by more data) or an early EOF followed by more data; relaxed oracle: tokens delivered are a prefix of the reference tokens (exactly the reference of the truncated input for an early EOF), the scanner reports the injected error when it stops early, Next stays false, Rest is never wrong data; " +
			"non-trivial and distinct as in C16/delivery",
		Real:           real,
		Simulated:      []string{"the io.Reader handed to scanners, including read errors and early EOF", "sync.Pool object choice and retention", "goroutine scheduling at every Read and pool operation"},
		RequiredProbes: []string{"fault:error_with_data", "fault:error_alone", "fault:early_eof_then_more_data", "probe:scanner_reported_injected_error"},
	})
}
