package props

import (
	"fmt"
	"math"
	"math/bits"
	"math/rand/v2"
	"sort"

	"github.com/creachadair/mds/distinct"
	"verifsim/chooser"
	"verifsim/sched"
)

// C19: distinct.Counter with its random source and the iteration order of its
// buffer map owned by the simulator (DESIGN.md 4.5).
//
// C19/A: invariants after every Add under arbitrary, including adversarial,
// random words. C19/B: unbiasedness under fair words.

var c19Sizes = []int{2, 3, 4, 5, 6, 8, 10, 16, 24, 32, 64}

// Word kinds the simulated source can return. The adversarial kinds fix only
// `ends` bits at each end of the word (ends = the buffer size, clamped to 2..16)
// and leave the middle fair: enough to force one all-keep or all-evict pass over
// a full buffer, or one coin flip, whichever end of the word an implementation
// consumes first - and no more. A word with all 64 bits forced would hand an
// implementation that carries its coin bits over from pass to pass (a perfectly
// fair thing to do) thirty-two consecutive all-keep passes on a two-element
// buffer, and two such words would push the scale past the 64 bits of Count;
// real entropy does that with probability 2^-128.
const (
	wFair     = iota
	wOnes     // both ends all ones: a pass keeps everything, a coin evicts
	wZeros    // both ends all zeros: a pass evicts everything, a coin keeps
	wLowOnes  // low end ones, high end zeros
	wHighOnes // high end ones, low end zeros
	numWordKinds
)

var wordKindNames = [...]string{"fair", "ends-ones", "ends-zeros", "low-ones-high-zeros", "high-ones-low-zeros"}

// simSource is the rand.Source handed to the counter.
type simSource struct {
	ch       chooser.Chooser
	scripted bool // every word's kind is an explicit choice
	weights  []int
	fair     *rand.PCG
	ends     uint // forced bits at each end of an adversarial word
	last     int
	streak   int
	budget   int // adversarial words left (fault budget)
	st       *Stats
	calls    int
	log      []string
}

// maxStreak caps runs of identical adversarial words.
const maxStreak = 8

// maxScale ends a run: Count is Len times 2^k with k the number of halving
// passes. An adversarial word forces at most one pass or one coin, the budget
// is at most 16 words, and fair words add about log2(stream/size) passes, so k
// stays far below 40; this is the backstop.
const maxScale = 1 << 40

var c19Budgets = []int{2, 4, 8, 16}

func (s *simSource) Uint64() uint64 {
	s.calls++
	var kind int
	if s.scripted {
		kind = weighted(s.ch, s.weights, "word")
	} else {
		// statistical program: kinds drawn by the run's sub-generator
		sum := 0
		for _, w := range s.weights {
			sum += w
		}
		v := int(s.fair.Uint64() % uint64(sum))
		for i, w := range s.weights {
			if v < w {
				kind = i
				break
			}
			v -= w
		}
	}
	if kind != wFair && s.budget <= 0 {
		kind = wFair
	}
	if kind != wFair && kind == s.last && s.streak >= maxStreak {
		kind = wFair
		s.st.Inc("fault:adversarial_word_streak_capped", 1)
	}
	if kind != wFair {
		s.budget--
	}
	if kind == s.last {
		s.streak++
	} else {
		s.last, s.streak = kind, 1
	}
	w := s.fair.Uint64()
	lo := uint64(1)<<s.ends - 1
	hi := lo << (64 - s.ends)
	switch kind {
	case wOnes:
		w |= lo | hi
	case wZeros:
		w &^= lo | hi
	case wLowOnes:
		w = (w | lo) &^ hi
	case wHighOnes:
		w = (w | hi) &^ lo
	}
	s.st.Inc("fault:word_"+wordKindNames[kind], 1)
	if len(s.log) < 64 {
		s.log = append(s.log, fmt.Sprintf("%s:%016x", wordKindNames[kind], w))
	}
	return w
}

// orderPolicy returns the hook that fixes the iteration order of the counter's
// buffer map during a halving pass.
func orderPolicy(policy int, sub *rand.PCG, ch chooser.Chooser) func(any) {
	return func(keys any) {
		ks, ok := keys.([]int)
		if !ok {
			return
		}
		sort.Ints(ks)
		switch policy {
		case 1: // descending
			for i, j := 0, len(ks)-1; i < j; i, j = i+1, j-1 {
				ks[i], ks[j] = ks[j], ks[i]
			}
		case 2: // permutation from the run's sub-generator
			for i := len(ks) - 1; i > 0; i-- {
				j := int(sub.Uint64() % uint64(i+1))
				ks[i], ks[j] = ks[j], ks[i]
			}
		case 3: // permutation chosen step by step (small buffers only)
			if len(ks) > 6 {
				return
			}
			for i := len(ks) - 1; i > 0; i-- {
				j := ch.Draw(i+1, "order")
				ks[i], ks[j] = ks[j], ks[i]
			}
		}
	}
}

type c19Config struct {
	Size     int    `json:"size"`
	Distinct int    `json:"distinct_values"`
	MaxRep   int    `json:"max_repeats"`
	Resets   int    `json:"resets"`
	Scripted bool   `json:"every_word_is_a_choice"`
	Weights  []int  `json:"word_kind_weights"`
	Order    string `json:"map_order"`
	Budget   int    `json:"non_fair_word_budget"`
}

var orderNames = [...]string{"ascending", "descending", "sub-generator permutation", "chosen permutation"}

// endsFor is the number of forced bits at each end of an adversarial word.
func endsFor(size int) uint {
	switch {
	case size < 2:
		return 2
	case size > 16:
		return 16
	}
	return uint(size)
}

// buildStream returns a stream with d distinct values, each repeated 1..maxRep
// times, interleaved by the sub-generator.
func buildStream(d, maxRep int, sub *rand.PCG) []int {
	var s []int
	for v := 1; v <= d; v++ {
		r := 1 + int(sub.Uint64()%uint64(maxRep))
		for i := 0; i < r; i++ {
			s = append(s, v)
		}
	}
	// Local shuffle: each element moves at most a window, so repeats of a value
	// straddle other values (and halving passes) without the stream losing its
	// "new values keep arriving" shape.
	win := 1 + int(sub.Uint64()%uint64(len(s)))
	for i := range s {
		j := i + int(sub.Uint64()%uint64(win))
		if j >= len(s) {
			j = len(s) - 1
		}
		s[i], s[j] = s[j], s[i]
	}
	return s
}

func runC19A(ch chooser.Chooser, st *Stats) *Outcome {
	sched.Progress()
	sched.Arm(true)
	defer sched.Arm(false)
	var cfg c19Config
	cfg.Scripted = ch.Draw(2, "scripted") == 1
	if cfg.Scripted {
		cfg.Size = c19Sizes[ch.Draw(6, "size")] // 2..8
		cfg.Distinct = 1 + ch.Draw(3*cfg.Size, "distinct")
	} else {
		cfg.Size = c19Sizes[ch.Draw(len(c19Sizes), "size")]
		switch ch.Draw(4, "dclass") {
		case 0:
			cfg.Distinct = 1 + ch.Draw(cfg.Size, "distinct") // below / at
		case 1:
			cfg.Distinct = cfg.Size + ch.Draw(cfg.Size+1, "distinct") // up to 2x
		case 2:
			cfg.Distinct = 2*cfg.Size + ch.Draw(4*cfg.Size, "distinct")
		default:
			cfg.Distinct = 20 * cfg.Size
		}
	}
	cfg.MaxRep = 1 + ch.Draw(4, "maxrep")
	cfg.Resets = ch.Draw(3, "resets")
	cfg.Weights = make([]int, numWordKinds)
	for i := range cfg.Weights {
		cfg.Weights[i] = []int{1, 0, 2, 4}[ch.Draw(4, "ww."+wordKindNames[i])]
	}
	if cfg.Weights[wFair] == 0 {
		cfg.Weights[wFair] = 1
	}
	cfg.Budget = c19Budgets[ch.Draw(len(c19Budgets), "budget")]
	policy := ch.Draw(4, "order")
	cfg.Order = orderNames[policy]
	subSeed := uint64(ch.Draw(1<<16, "subseed"))
	sub := rand.NewPCG(subSeed, 0x5eed)
	src := &simSource{ch: ch, scripted: cfg.Scripted, weights: cfg.Weights, fair: rand.NewPCG(subSeed, 0xfa17), last: -1, st: st, budget: cfg.Budget, ends: endsFor(cfg.Size)}
	stream := buildStream(cfg.Distinct, cfg.MaxRep, sub)
	resetAt := map[int]bool{}
	for i := 0; i < cfg.Resets; i++ {
		resetAt[ch.Draw(len(stream)+1, "resetat")] = true
	}

	sched.OrderFunc = orderPolicy(policy, sub, ch)
	defer func() { sched.OrderFunc = nil }()

	out := &Outcome{Nontrivial: cfg.Distinct >= cfg.Size}
	if !distinct.VerifSourceInjectable {
		// The simulator does not own the randomness of this build: the
		// invariants are still checked, but the run is not a function of its
		// choice list.
		out.Detached = 1
		st.Inc("fault:random_source_not_replaceable", 1)
	}
	h := newHasher()
	type stepRec struct {
		Op    string `json:"op"`
		Len   int    `json:"len"`
		Count uint64 `json:"count"`
	}
	var steps []stepRec
	out.Trace = func() any {
		s := steps
		if len(s) > 80 {
			s = s[len(s)-80:]
		}
		return map[string]any{"config": cfg, "last_steps": s, "first_words": src.log, "stream_length": len(stream)}
	}
	fail := func(class, detail string) *Outcome {
		out.Violation = &Violation{class, detail}
		out.Hash = h.sum()
		out.Steps = len(steps)
		return out
	}

	var c *distinct.Counter[int]
	if p := safely(func() { c = distinct.VerifNewCounter[int](cfg.Size, src) }); p != "" {
		return fail("panic", "NewCounter panicked: "+p)
	}
	seen := map[int]bool{}
	ratio := uint64(1) // last observed Count/Len since Reset
	prevLen := 0
	for i := 0; i <= len(stream); i++ {
		if resetAt[i] {
			sampled := ratio > 1
			if p := safely(func() { c.Reset() }); p != "" {
				return fail("panic", "Reset panicked: "+p)
			}
			l, n := c.Len(), c.Count()
			steps = append(steps, stepRec{"Reset", l, n})
			if l != 0 || n != 0 {
				return fail("reset-not-empty", fmt.Sprintf("after Reset: Len()=%d Count()=%d, want 0 and 0", l, n))
			}
			if sampled {
				st.Inc("probe:reset_in_sampled_regime", 1)
			}
			seen = map[int]bool{}
			ratio, prevLen = 1, 0
		}
		if i == len(stream) {
			break
		}
		v := stream[i]
		sched.Progress()
		if p := safely(func() { c.Add(v) }); p != "" {
			return fail("panic", fmt.Sprintf("Add(%d) panicked: %s", v, p))
		}
		seen[v] = true
		l, n := c.Len(), c.Count()
		steps = append(steps, stepRec{fmt.Sprintf("Add(%d)", v), l, n})
		h.u64(uint64(v))
		h.u64(uint64(l))
		h.u64(n)
		// Bounded.
		if l > cfg.Size {
			return fail("len-over-size", fmt.Sprintf("after %d Adds (%d distinct) Len()=%d exceeds the buffer size %d", i+1, len(seen), l, cfg.Size))
		}
		// Exact below capacity.
		if len(seen) < cfg.Size {
			if n != uint64(len(seen)) || l != len(seen) {
				return fail("not-exact-below-capacity", fmt.Sprintf("%d distinct values added (< size %d) but Count()=%d Len()=%d", len(seen), cfg.Size, n, l))
			}
			st.Inc("probe:exact_regime_checked", 1)
		}
		// Count is Len times a power of two that does not decrease.
		if l == 0 {
			if n != 0 {
				return fail("count-not-len-times-power-of-two", fmt.Sprintf("Len()=0 but Count()=%d", n))
			}
			if prevLen > 0 {
				st.Inc("probe:buffer_emptied", 1)
			}
		} else {
			if n%uint64(l) != 0 || bits.OnesCount64(n/uint64(l)) != 1 {
				return fail("count-not-len-times-power-of-two", fmt.Sprintf("Count()=%d is not Len()=%d times a power of two", n, l))
			}
			r := n / uint64(l)
			if r < ratio {
				return fail("scale-decreased", fmt.Sprintf("Count()/Len() went from %d to %d without a Reset", ratio, r))
			}
			if r >= 4*ratio {
				st.Inc("probe:several_halvings_in_one_add", 1)
			}
			if r > ratio {
				st.Inc("probe:halving_pass", 1)
			} else if l == prevLen-1 {
				st.Inc("probe:present_element_removed_by_failed_coin", 1)
			}
			if l == cfg.Size {
				st.Inc("probe:len_at_capacity_after_add", 1)
			}
			ratio = r
		}
		prevLen = l
		if ratio >= maxScale {
			st.Inc("probe:run_ended_at_scale_2^40", 1)
			break
		}
	}
	out.Hash = h.sum()
	out.Steps = len(steps)
	return out
}

// ---------------------------------------------------------------- part B

type c19BConfig struct {
	Size     int `json:"size"`
	Distinct int `json:"distinct_values"`
	MaxRep   int `json:"max_repeats"`
	Counters int `json:"independent_counters"`
	// Reuse: one counter processes the stream Counters times with a Reset in
	// between (and one continuing fair source) instead of Counters fresh counters.
	Reuse bool `json:"one_counter_reset_between_runs"`
	// Poll: Count is read after every Add (progress polling), not only at the end.
	Poll bool `json:"count_polled_after_every_add"`
	// Deep: a tiny buffer and a stream thousands of times larger, so that the
	// probability is halved a dozen times or more ("far above the buffer size").
	Deep bool `json:"deep_halving"`
	// RealSource: the counters come from the real constructor, with whatever
	// source it sets up (in production: ChaCha8 seeded from crypto/rand), not
	// from the simulator: "independent runs" must be independent as shipped.
	// The verdict is statistical only; the run's fingerprint leaves the counts
	// out, because they differ from process to process.
	RealSource bool    `json:"real_constructor_and_entropy"`
	Mean       float64 `json:"mean_count"`
	StdDev     float64 `json:"stddev_count"`
	Tol        float64 `json:"tolerance"`
}

var c19BSizes = []int{4, 6, 8, 12, 16, 24, 32, 64, 100, 200}

// C19BCounters is the number of independent counters per configuration.
var C19BCounters = 20000

func runC19B(ch chooser.Chooser, st *Stats) *Outcome {
	sched.Progress()
	sched.Arm(true)
	defer sched.Arm(false)
	var cfg c19BConfig
	cfg.Size = c19BSizes[ch.Draw(len(c19BSizes), "size")]
	mult := []int{2, 3, 5, 10, 20, 50}[ch.Draw(6, "mult")]
	if cfg.Size > 64 && mult > 5 {
		mult = 5 // keep the cost of one configuration bounded
	}
	cfg.Distinct = cfg.Size*mult + ch.Draw(cfg.Size, "extra")
	cfg.MaxRep = 1 + ch.Draw(3, "maxrep")
	cfg.Counters = C19BCounters
	cfg.Reuse = ch.Draw(3, "reuse") == 2
	cfg.Poll = ch.Draw(3, "poll") == 2
	cfg.RealSource = ch.Draw(6, "realsource") == 5
	if ch.Draw(6, "deep") == 5 {
		cfg.Deep = true
		cfg.Size = []int{4, 6, 8}[ch.Draw(3, "dsize")]
		cfg.Distinct = cfg.Size << (11 + ch.Draw(3, "dshift"))
		cfg.MaxRep = 1
		cfg.Counters = C19BCounters / 10
		if cfg.Counters < 1000 {
			cfg.Counters = 1000
		}
	}
	subSeed := uint64(ch.Draw(1<<20, "subseed"))
	stream := buildStream(cfg.Distinct, cfg.MaxRep, rand.NewPCG(subSeed, 0x5eed))

	sched.OrderFunc = orderPolicy(0, nil, nil) // ascending: makes the batch exactly repeatable
	defer func() { sched.OrderFunc = nil }()

	out := &Outcome{Nontrivial: true}
	out.Trace = func() any { return cfg }
	var sum, sumsq float64
	h := newHasher()
	var shared *distinct.Counter[int]
	for k := 0; k < cfg.Counters; k++ {
		sched.Progress()
		var n uint64
		p := safely(func() {
			var c *distinct.Counter[int]
			if cfg.RealSource && cfg.Reuse {
				if shared == nil {
					shared = distinct.NewCounter[int](cfg.Size)
				} else {
					shared.Reset()
				}
				c = shared
			} else if cfg.RealSource {
				c = distinct.NewCounter[int](cfg.Size)
			} else if cfg.Reuse {
				if shared == nil {
					shared = distinct.VerifNewCounter[int](cfg.Size, rand.NewPCG(subSeed, 1))
				} else {
					shared.Reset()
				}
				c = shared
			} else {
				c = distinct.VerifNewCounter[int](cfg.Size, rand.NewPCG(subSeed, uint64(k)+1))
			}
			if cfg.Poll {
				for _, v := range stream {
					c.Add(v)
					n = c.Count()
				}
			} else {
				for _, v := range stream {
					c.Add(v)
				}
			}
			n = c.Count()
		})
		if p != "" {
			out.Violation = &Violation{"panic", "counter panicked: " + p}
			return out
		}
		f := float64(n)
		sum += f
		sumsq += f * f
		if !cfg.RealSource {
			h.u64(n)
		}
	}
	N := float64(cfg.Counters)
	mean := sum / N
	variance := (sumsq - N*mean*mean) / (N - 1)
	if variance < 0 {
		variance = 0
	}
	cfg.Mean, cfg.StdDev = mean, math.Sqrt(variance)
	cfg.Tol = 8*cfg.StdDev/math.Sqrt(N) + 1e-9
	out.Hash = h.sum()
	out.Steps = cfg.Counters * len(stream)
	st.Inc("adds", int64(out.Steps))
	if cfg.Reuse {
		st.Inc("probe:counter_reused_through_reset", 1)
	}
	if cfg.Poll {
		st.Inc("probe:count_polled_after_every_add", 1)
	}
	if cfg.Deep {
		st.Inc("probe:deep_halving_configuration", 1)
	}
	if cfg.RealSource {
		st.Inc("probe:real_constructor_and_entropy", 1)
	}
	if math.Abs(mean-float64(cfg.Distinct)) > cfg.Tol {
		out.Violation = &Violation{"biased-estimate", fmt.Sprintf("size %d, %d distinct values in a stream of %d: mean Count over %d independent counters is %.3f (std dev %.3f); deviation %.3f exceeds 8 standard errors = %.3f",
			cfg.Size, cfg.Distinct, len(stream), cfg.Counters, mean, cfg.StdDev, mean-float64(cfg.Distinct), cfg.Tol)}
	}
	return out
}

func init() {
	register(&Property{
		ID:  "C19/A",
		Run: runC19A,
		Rule: "one run = one counter (size 2-64) fed a stream of 1..20x size distinct values, each repeated 1-4 times and interleaved, with 0-2 Resets, while the simulator supplies every 64-bit word of the counter's random source (fair, or with the 2-16 bits at each end forced to ones or zeros and the middle fair, within a budget of 2-16 such words) and the iteration order of the buffer map in each halving pass; invariants checked after every Add; " +
			"a run is non-trivial if the stream has at least size distinct values (the sampled regime is entered); distinct = distinct fingerprints of (value, Len, Count) sequences",
		Real:      []string{"distinct.Counter", "mapset.Set"},
		Simulated: []string{"the counter's rand.Source (crypto/rand-seeded ChaCha8 in production)", "iteration order of the buffer map during a halving pass"},
		RequiredProbes: []string{"probe:exact_regime_checked", "probe:halving_pass", "probe:several_halvings_in_one_add", "probe:present_element_removed_by_failed_coin",
			"probe:reset_in_sampled_regime", "probe:buffer_emptied", "fault:word_ends-ones", "fault:word_ends-zeros", "fault:word_low-ones-high-zeros", "fault:word_high-ones-low-zeros"},
	})
	register(&Property{
		ID:  "C19/B",
		Run: runC19B,
		Rule: "one run = one (size, stream) configuration (size 4-200, 2x-50x size distinct values, repeats straddling halving passes) processed by many independent counters, each with its own fair source; alarm iff |mean(Count) - D| > 8 standard errors; " +
			"every run is non-trivial (always in the sampled regime); distinct = distinct fingerprints of the vector of final counts",
		Real:      []string{"distinct.Counter", "mapset.Set"},
		Simulated: []string{"the counter's rand.Source (PCG sub-generators seeded from the run's choice stream)", "iteration order of the buffer map (ascending)"},
	})
}
