// Package chooser is the single source of every decision a simulated run makes.
//
// A run talks to a Chooser only. Two implementations exist: Rapid draws from a
// pgregory.net/rapid bit stream (seeded, shrinkable) and records every answer;
// List replays a recorded list exactly (used to re-execute a run against the
// differential twin and to replay a violation from its replay file).
package chooser

import (
	"fmt"
	"io"

	"pgregory.net/rapid"
)

// Choice is one recorded decision: a value in [0,N) (N == 0 for a raw 64-bit word).
type Choice struct {
	L string `json:"l"` // label: what was being decided
	N uint64 `json:"n"` // number of alternatives (0: raw 64-bit word)
	V uint64 `json:"v"` // the alternative taken
}

// Chooser answers every question the simulator asks.
type Chooser interface {
	// Draw returns a value in [0,n). n must be >= 1. By convention 0 is the
	// "simplest" alternative (no fault, no context switch, smallest size).
	Draw(n int, label string) int
	// Word returns an arbitrary 64-bit word.
	Word(label string) uint64
	// Record returns the choices made so far.
	Record() []Choice
}

// ---------------------------------------------------------------- rapid

var gens [4097]*rapid.Generator[int]
var wordGen = rapid.Uint64()

func gen(n int) *rapid.Generator[int] {
	if n < len(gens) {
		if gens[n] == nil {
			gens[n] = rapid.IntRange(0, n-1)
		}
		return gens[n]
	}
	return rapid.IntRange(0, n-1)
}

// Rapid draws from a rapid.T and records.
type Rapid struct {
	T   *rapid.T
	rec []Choice
	// Stream, if set, receives every choice as one JSON line the moment it is
	// made (unbuffered): what was drawn survives a crash of the process.
	Stream io.Writer
}

func (r *Rapid) stream(c Choice) {
	if r.Stream != nil {
		fmt.Fprintf(r.Stream, "{\"l\":%q,\"n\":%d,\"v\":%d}\n", c.L, c.N, c.V)
	}
}

func NewRapid(t *rapid.T) *Rapid { return &Rapid{T: t, rec: make([]Choice, 0, 256)} }

func (r *Rapid) Draw(n int, label string) int {
	if n < 1 {
		panic(fmt.Sprintf("chooser: Draw(%d, %q)", n, label))
	}
	v := 0
	if n > 1 {
		v = gen(n).Draw(r.T, label)
	}
	r.rec = append(r.rec, Choice{L: label, N: uint64(n), V: uint64(v)})
	r.stream(r.rec[len(r.rec)-1])
	return v
}

func (r *Rapid) Word(label string) uint64 {
	v := wordGen.Draw(r.T, label)
	r.rec = append(r.rec, Choice{L: label, N: 0, V: v})
	r.stream(r.rec[len(r.rec)-1])
	return v
}

func (r *Rapid) Record() []Choice { return r.rec }

// ---------------------------------------------------------------- list

// Diverged is the panic value raised by List when the run asks a question the
// recorded list does not answer (different arity or list exhausted).
type Diverged struct{ Msg string }

func (d Diverged) Error() string { return "replay diverged: " + d.Msg }

// Exhausted is the panic value raised by List when the run asks for more
// choices than were recorded (the replayed run got further than the original).
type Exhausted struct{ Msg string }

func (e Exhausted) Error() string { return "replay exhausted: " + e.Msg }

// List replays a recorded list of choices.
type List struct {
	in  []Choice
	pos int
	// Strict: labels must match as well as arities. Lenient replays (twin
	// re-execution) only require arities to match.
	Strict bool
	// PadZero: once the list is exhausted answer 0 to everything instead of
	// panicking. Used to replay a hang: its list was cut at an arbitrary point
	// of a loop that kept asking.
	PadZero bool
	// Lenient: arities and labels need not match (a recorded value is reduced
	// modulo the number of alternatives asked for). Used only to re-run a
	// failure whose schedule depended on real timing (detached threads).
	Lenient bool
}

func NewList(cs []Choice, strict bool) *List { return &List{in: cs, Strict: strict} }

func (l *List) next(n uint64, label string) uint64 {
	if l.pos >= len(l.in) && (l.PadZero || l.Lenient) {
		return 0
	}
	if l.Lenient {
		// Timing-dependent run: follow the recorded choices as far as they
		// make sense.
		c := l.in[l.pos]
		l.pos++
		if n == 0 {
			return c.V
		}
		return c.V % n
	}
	if l.pos >= len(l.in) {
		panic(Exhausted{fmt.Sprintf("choice list exhausted at #%d (%s/%d)", l.pos, label, n)})
	}
	c := l.in[l.pos]
	if c.N != n || (l.Strict && c.L != label) {
		panic(Diverged{fmt.Sprintf("choice #%d: recorded %s/%d, run asks %s/%d", l.pos, c.L, c.N, label, n)})
	}
	if n != 0 && c.V >= n {
		panic(Diverged{fmt.Sprintf("choice #%d: value %d out of range %d", l.pos, c.V, n)})
	}
	l.pos++
	return c.V
}

func (l *List) Draw(n int, label string) int { return int(l.next(uint64(n), label)) }
func (l *List) Word(label string) uint64     { return l.next(0, label) }
func (l *List) Record() []Choice             { return l.in[:l.pos] }

// Remaining reports how many recorded choices were not consumed.
func (l *List) Remaining() int { return len(l.in) - l.pos }
